"""Schema description -> FCP text.

`tokens()` yields the token sequence; `Fmt` decides optional separators; `join_tokens`
glues tokens with a caller supplied separator function (C07 uses that to vary
whitespace/comments).  `to_text()` is the plain, canonical rendering used everywhere else.
"""

from __future__ import annotations

from typing import Any, Callable, List, Optional

from . import model as M


class Fmt:
    """Choices for the optional separators of the grammar.  Default = documented style."""

    def lead_bar(self) -> bool:  # "|" between the type and the first param
        return True

    def mid_bar(self) -> bool:  # "|" after a param (before the next one)
        return True

    def trail_bar(self) -> bool:  # "|" after the last param
        return False

    def arg_comma(self, last: bool) -> bool:  # "," after a param argument
        return not last

    def write_as(self) -> bool:
        return True

    def number(self, v: Any) -> str:
        return repr(v)


class DrawFmt(Fmt):
    """Fmt driven by a callable returning booleans (e.g. hypothesis draw)."""

    def __init__(self, draw_bool: Callable[[], bool], draw_int: Callable[[int, int], int]):
        self.b = draw_bool
        self.i = draw_int

    def lead_bar(self) -> bool:
        return self.b()

    def mid_bar(self) -> bool:
        return self.b()

    def trail_bar(self) -> bool:
        return self.b()

    def arg_comma(self, last: bool) -> bool:
        # a "," between two arguments is required for numbers to stay separate tokens in
        # every spelling; after the last argument it is optional
        return True if not last else self.b()

    def write_as(self) -> bool:
        return self.b()

    def number(self, v: Any) -> str:
        if isinstance(v, bool):
            raise TypeError(v)
        if isinstance(v, int):
            k = self.i(0, 2)
            if k == 1 and v >= 0:
                return "+" + str(v)
            return str(v)
        return repr(v)


def _value_tokens(v: Any, fmt: Fmt) -> List[str]:
    if isinstance(v, M.Ident):
        return [v.name]
    if isinstance(v, M.Num):
        return [v.text]
    if isinstance(v, bool):
        raise TypeError("bool is not an FCP value")
    if isinstance(v, (int, float)):
        return [fmt.number(v)]
    if isinstance(v, str):
        return ['"' + v + '"']
    if isinstance(v, list):
        out = ["["]
        for i, x in enumerate(v):
            if i:
                out.append(",")
            out += _value_tokens(x, fmt)
        out.append("]")
        return out
    raise TypeError(v)


def _num_text(x: Any) -> str:
    return x.text if isinstance(x, M.Num) else str(x)


def _type_tokens(t: M.Type) -> List[str]:
    if isinstance(t, M.Arr):
        return ["["] + _type_tokens(t.t) + [",", _num_text(t.n), "]"]
    if isinstance(t, M.Dyn):
        return ["["] + _type_tokens(t.t) + ["]"]
    if isinstance(t, M.Opt):
        return ["Optional", "["] + _type_tokens(t.t) + ["]"]
    return [M.type_text(t)]


def _float_text(x: float) -> str:
    r = repr(float(x))
    return r


def _field_tokens(f: M.Field, fmt: Fmt) -> List[str]:
    out = [f.name, "@", _num_text(f.fid), ":"] + _type_tokens(f.type)
    params: List[List[str]] = []
    for c in f.param_order:
        if c == "u" and f.unit is not None:
            params.append(["unit", "(", '"' + f.unit + '"'] + ([","] if fmt.arg_comma(True) else []) + [")"])
        if c == "r" and f.rng is not None:
            lo, hi = f.rng
            params.append(
                ["range", "(", _float_text(lo), ",", _float_text(hi)]
                + ([","] if fmt.arg_comma(True) else [])
                + [")"]
            )
    for rp in f.raw_params or []:
        params.append(list(rp))
    if params:
        if fmt.lead_bar():
            out.append("|")
        for i, p in enumerate(params):
            out += p
            last = i == len(params) - 1
            if (not last and fmt.mid_bar()) or (last and fmt.trail_bar()):
                out.append("|")
    out.append(",")
    return out


def _ext_tokens(k: str, v: Any, fmt: Fmt) -> List[str]:
    return [k, ":"] + _value_tokens(v, fmt) + [","]


def decl_tokens(d: M.Decl, fmt: Fmt) -> List[str]:
    if isinstance(d, M.Struct):
        out = ["struct", d.name, "{"]
        for f in d.fields:
            out += _field_tokens(f, fmt)
        return out + ["}"]
    if isinstance(d, M.Enum):
        out = ["enum", d.name, "{"]
        for n, v in d.items:
            out += [n, "="] + _value_tokens(v, fmt) + [","]
        return out + ["}"]
    if isinstance(d, M.Impl):
        out = ["impl", d.protocol, "for", d.type]
        if d.name is not None:
            if d.explicit_as and fmt.write_as():
                out.append("as")
            out.append(d.name)
        out.append("{")
        order = d.order
        if order is None:
            order = [("f", i) for i in range(len(d.fields))] + [("s", i) for i in range(len(d.signals))]
        for kind, i in order:
            if kind == "f":
                k, v = d.fields[i]
                out += _ext_tokens(k, v, fmt)
            else:
                sb = d.signals[i]
                out += ["signal", sb.name, "{"]
                for k, v in sb.fields:
                    out += _ext_tokens(k, v, fmt)
                out += ["}", ","]
        return out + ["}"]
    if isinstance(d, M.Service):
        out = ["service", d.name, "@", _num_text(d.id), "{"]
        for m in d.methods:
            out += ["method", m.name, "(", m.input, ")", "@", _num_text(m.id), "returns", m.output, ","]
        return out + ["}"]
    if isinstance(d, M.Device):
        out = ["device", d.name, "{"]
        for k, v in d.fields:
            out += _ext_tokens(k, v, fmt)
        return out + ["}"]
    if isinstance(d, M.Mod):
        out = ["mod"]
        for i, p in enumerate(d.path):
            if i:
                out.append(".")
            out.append(p)
        return out + [";"]
    raise TypeError(d)


def tokens(s: M.Schema, fmt: Optional[Fmt] = None, version: str = "3") -> List[List[str]]:
    """Token sequence, grouped per top-level item (preamble first)."""
    fmt = fmt or Fmt()
    groups = [["version", ":", '"' + version + '"']]
    for d in s.decls:
        groups.append(decl_tokens(d, fmt))
    return groups


def _pretty(groups: List[List[str]]) -> str:
    out: List[str] = []
    for g in groups:
        line: List[str] = []
        bal = 0
        for t in g:
            line.append(t)
            if t in ("(", "["):
                bal += 1
            elif t in (")", "]"):
                bal -= 1
            if bal == 0 and t in ("{", ",", "}", ";"):
                out.append(" ".join(line))
                line = []
        if line:
            out.append(" ".join(line))
        out.append("")
    return "\n".join(out)


def to_text(s: M.Schema, fmt: Optional[Fmt] = None, version: str = "3") -> str:
    return _pretty(tokens(s, fmt, version))


def join_tokens(groups: List[List[str]], sep: Callable[[str, str], str]) -> str:
    """Glue all tokens; `sep(prev, next)` returns the text placed between two tokens."""
    flat = [t for g in groups for t in g]
    out = [flat[0]]
    for a, b in zip(flat, flat[1:]):
        out.append(sep(a, b))
        out.append(b)
    return "".join(out)


def _wordlike(t: str) -> bool:
    return t[0].isalnum() or t[0] in "_+-." or t[0] == '"'


def needs_space(a: str, b: str) -> bool:
    """True when two adjacent tokens would fuse (or become ambiguous) without a blank."""
    wa = a[-1].isalnum() or a[-1] in "_."
    wb = b[0].isalnum() or b[0] in "_+-."
    return wa and wb
