"""Strategies for CAN-bound schemas (C05, C06, C14, C15, C17, C19)."""

from __future__ import annotations

from dataclasses import dataclass, field
from typing import Any, Dict, List, Optional, Sequence, Tuple

from hypothesis import strategies as st

from . import model as M
from . import reflayout
from . import strategies as S

# names without underscores / digits-after-underscore so that derived leaf names
# (a::b -> a_b, x -> x_0) can never collide with declared ones
# words from the tool's own vocabulary: generated code tends to use them for its own members, macros and helpers
# (GetBus(), CAN_MSG_PERIOD_EVENT, ...), so a user-chosen name that coincides with one must still work
DOMAIN_FIELDS = ["bus", "dlc", "device", "period", "signal", "protocol", "impl", "service", "method", "schema", "encode",
                 "decode", "msg", "frame", "length", "count", "index", "version", "status", "state", "mode", "error",
                 "flags", "crc", "timestamp", "event", "global", "common", "sid", "ext", "mux", "dev", "time", "raw"]
DOMAIN_TYPES = ["Event", "Status", "Global", "Common", "Frame", "Msg", "Signal", "Device", "Period", "Count", "Max", "Min",
                "Len", "Time", "Init", "Send", "Mode", "State", "Error", "Dev", "Bus", "Dlc", "Raw"]
can_field = st.one_of(
    st.from_regex(r"[a-z][a-z0-9]{0,5}", fullmatch=True), st.from_regex(r"[a-z][a-z0-9]{0,5}", fullmatch=True),
    st.from_regex(r"[a-z][a-z0-9]{0,5}", fullmatch=True), st.from_regex(r"[a-z][a-z0-9]{0,5}", fullmatch=True),
    st.from_regex(r"[a-z][a-z0-9]{0,5}", fullmatch=True), st.sampled_from(DOMAIN_FIELDS),
).filter(lambda x: x not in S.KEYWORDS and x not in S.C_RESERVED and not S.is_tricky(x))
# long descriptive names as real automotive schemas have them (longer than DBC's 32 and C's 31/63 significant
# characters once prefixed), with shared prefixes; and "filler"-looking names
LONG_FIELDS = ["highvoltagebatterycellsminimumvalue", "highvoltagebatterycellsmaximumvalue", "cellvoltagemin",
               "cellvoltagemax", "cellvoltageavg", "reserved", "rsvd0", "rsvd1", "padding", "unused", "spare"]
LONG_TYPES = ["BatteryManagementSystemStatus", "BatteryManagementSystemStatusMessageExtended", "Vehiclecontrolunitdiag"]
can_type = st.one_of(
    st.from_regex(r"[A-Z][a-z0-9]{1,6}", fullmatch=True), st.from_regex(r"[A-Z][a-z0-9]{1,6}", fullmatch=True),
    st.from_regex(r"[A-Z][a-z0-9]{1,6}", fullmatch=True), st.from_regex(r"[A-Z][a-z0-9]{1,6}", fullmatch=True),
    st.from_regex(r"[A-Z][a-z0-9]{1,6}", fullmatch=True), st.sampled_from(DOMAIN_TYPES),
).filter(lambda x: x not in S.KEYWORDS and x.lower() not in S.C_RESERVED)
can_device = st.from_regex(r"[a-z][a-z0-9]{1,5}", fullmatch=True).filter(
    lambda x: x not in S.KEYWORDS and x not in S.C_RESERVED and not S.is_tricky(x)
)
bus_name = st.from_regex(r"[a-z][a-z0-9]{0,3}", fullmatch=True).filter(lambda x: x != "default")


@dataclass
class CanCfg:
    max_enums: int = 2
    max_msgs: int = 4
    max_leaf_fields: int = 6
    budget: int = 64  # bits per message
    nested: bool = True
    arrays: bool = True
    floats: bool = True
    enums_max_bits: int = 16
    big_endian: bool = True
    mux: bool = True
    mux_two_selectors: bool = False  # two independent selector fields in one message (C17 only: not a valid simple DBC)
    buses: bool = True
    devices: bool = True
    units: bool = True
    alias: bool = True  # `as` names / several bindings per struct
    min_fields: int = 1
    periods: bool = False
    max_id: int = 2047
    signed: bool = True
    long_names: bool = True
    widths: Optional[st.SearchStrategy] = None


@st.composite
def leaf_type(draw, cfg: CanCfg, enums: Sequence[M.Enum], remaining: int) -> Optional[M.Type]:
    opts: List[M.Type] = []
    w = draw(cfg.widths if cfg.widths is not None else S.widths)
    if w <= remaining:
        # now and then the zero-padded spelling the grammar accepts ("u08", "i04"): same type, other text
        pad = w <= 9 and draw(st.integers(0, 7)) == 0
        opts.append(M.U(w, f"u0{w}") if pad else M.U(w))
        if cfg.signed:
            opts.append(M.I(w, f"i0{w}") if pad else M.I(w))
    if cfg.floats and remaining >= 32:
        opts.append(M.F32())
    if cfg.floats and remaining >= 64:
        opts.append(M.F64())
    for e in enums:
        if e.width() <= remaining:
            opts.append(M.EnumRef(e.name))
    small = draw(st.integers(1, max(1, min(8, remaining))))
    opts.append(M.U(small))
    if cfg.signed:
        opts.append(M.I(small))
    return draw(st.sampled_from(opts))


@st.composite
def can_message_struct(draw, name: str, cfg: CanCfg, s: M.Schema, helper_names: List[str]) -> List[M.Decl]:
    """-> [helper structs..., the message struct]; total wire width <= cfg.budget."""
    remaining = cfg.budget
    n = draw(st.integers(cfg.min_fields, cfg.max_leaf_fields))
    fnames = draw(S.unique_names(can_field, n, n))
    if cfg.long_names and draw(st.integers(0, 4)) == 0:
        extra = draw(st.lists(st.sampled_from(LONG_FIELDS), min_size=1, max_size=min(n, 3), unique=True))
        fnames = [x for x in extra if x not in fnames] + fnames
        fnames = fnames[:n]
    ids = draw(S.field_ids(n, 40, True))
    fields: List[M.Field] = []
    helpers: List[M.Decl] = []
    for fname, fid in zip(fnames, ids):
        if remaining <= 0:
            break
        kind = draw(st.integers(0, 9))
        t: Optional[M.Type] = None
        if kind == 0 and cfg.nested and helper_names and remaining >= 2:
            # nested struct with 1-3 small leaves
            hn = helper_names.pop()
            k = draw(st.integers(1, 3))
            hf = draw(S.unique_names(can_field, k, k, fnames))  # never named like a top-level field (block scope)
            hfields = []
            used = 0
            for j, hfn in enumerate(hf):
                lt = draw(leaf_type(cfg, s.enums, min(remaining - used, 16)))
                lw = reflayout.wire_width(s, lt)
                if used + lw > remaining:
                    break
                hfields.append(M.Field(hfn, j if draw(st.booleans()) else 10 - j, lt))
                used += lw
            if hfields:
                helpers.append(M.Struct(hn, hfields))
                t = M.StructRef(hn)
                cnt = 1
                if cfg.arrays and used > 0 and 2 * used <= remaining and draw(st.booleans()):
                    # array of structs: unrolled element by element by the back ends
                    cnt = draw(st.integers(2, max(2, min(3, remaining // used))))
                    t = M.Arr(t, cnt)
                remaining -= used * cnt
        elif kind == 1 and cfg.arrays and remaining >= 2:
            lt = draw(leaf_type(cfg, s.enums, max(1, remaining // 2)))
            lw = reflayout.wire_width(s, lt)
            cnt = draw(st.integers(1, max(1, min(4, remaining // lw))))
            if lw * cnt <= remaining:
                t = M.Arr(lt, cnt)
                remaining -= lw * cnt
        if t is None:
            lt = draw(leaf_type(cfg, s.enums, remaining))
            lw = reflayout.wire_width(s, lt)
            if lw > remaining:
                continue
            t = lt
            remaining -= lw
        unit = draw(st.none() | S.unit_text) if cfg.units else None
        fields.append(M.Field(fname, fid, t, unit))
    if not fields:
        fields = [M.Field(fnames[0], ids[0], M.U(draw(st.integers(1, min(8, cfg.budget)))))]
    return helpers + [M.Struct(name, fields)]


@st.composite
def can_schema(draw, cfg: Optional[CanCfg] = None) -> M.Schema:
    cfg = cfg or CanCfg()
    n_e = draw(st.integers(0, cfg.max_enums))
    n_m = draw(st.integers(1, cfg.max_msgs))
    names = draw(S.unique_names(can_type, n_e + 2 * n_m, n_e + 2 * n_m))
    s = M.Schema([])
    for nm in names[:n_e]:
        s.decls.append(draw(S.enum_decl(nm, cfg.enums_max_bits, st.from_regex(r"[A-Z][a-z0-9]{1,6}", fullmatch=True))))
    msg_names = list(names[n_e:n_e + n_m])
    # related names: one message name contained in another ("Status" / "StatusReq"), as in real schemas
    if n_m >= 2 and draw(st.integers(0, 2)) == 0:
        i, j = draw(st.lists(st.integers(0, n_m - 1), min_size=2, max_size=2, unique=True))
        cand = msg_names[i] + draw(st.sampled_from(["Req", "x", "2", "Ext"]))
        if cand not in names and cand not in msg_names:
            msg_names[j] = cand
    if cfg.long_names and draw(st.integers(0, 5)) == 0:
        ln = draw(st.sampled_from(LONG_TYPES))
        if ln not in names and ln not in msg_names:
            msg_names[draw(st.integers(0, n_m - 1))] = ln
    helper_names = list(names[n_e + n_m:])
    for nm in msg_names:
        for d in draw(can_message_struct(nm, cfg, s, helper_names)):
            s.decls.append(d)
    # bindings
    used_ids: set = set()
    used_names: set = set()
    buses = draw(st.lists(bus_name | st.from_regex(r"[A-Za-z][A-Za-z0-9]{0,3}", fullmatch=True).filter(lambda x: x.lower() != "default"),
                          min_size=0, max_size=3, unique=True)) if cfg.buses else []
    if buses and draw(st.integers(0, 2)) == 0:
        # two buses whose names differ only in letter case are two buses (two files)
        for v in (buses[0].upper(), buses[0].capitalize(), buses[0].swapcase()):
            if v not in buses and v.lower() != "default":
                buses.append(v)
                break
    devs = draw(st.lists(can_device, min_size=1, max_size=3, unique=True)) if cfg.devices else []
    for nm in msg_names:
        n_b = draw(st.sampled_from([1, 1, 1, 2])) if cfg.alias else 1
        for b in range(n_b):
            alias = None
            if b > 0 or (cfg.alias and draw(st.integers(0, 4)) == 0):
                alias = draw(can_type.filter(lambda x: x not in names and x not in used_names))
            eff = alias or nm
            if eff in used_names:
                continue
            used_names.add(eff)
            fid = draw(st.integers(0, cfg.max_id).filter(lambda x: x not in used_ids))
            used_ids.add(fid)
            fields: List[Tuple[str, Any]] = [("id", fid)]
            if buses and draw(st.booleans()):
                fields.append(("bus", draw(st.sampled_from(buses))))
            if devs and draw(st.integers(0, 3)) != 0:
                fields.append(("device", draw(st.sampled_from(devs))))
            if cfg.periods:
                if draw(st.integers(0, 4)) != 0:
                    fields.append(("period", draw(st.integers(1, 50))))
            sbs = draw(can_signal_blocks(s, nm, cfg))
            fields = list(draw(st.permutations(fields)))
            s.decls.append(M.Impl("can", nm, alias, fields, sbs, S.interleave(draw, len(fields), len(sbs))))
        # a nested leaf named like the message's multiplexer selector ("drive::mode" next to the selector "mode"):
        # its flattened name ends in "_mode" but it is neither the multiplexer nor multiplexed.  Only when the message
        # has one binding and the selector carries no signal block of its own (a block's options may legitimately
        # reach a nested field of the same name, see DESIGN section 10).
        mine = [i for i in s.impls if i.type == nm and i.protocol == "can"]
        if len(mine) == 1 and draw(st.booleans()):
            sels = {v for sb in mine[0].signals for k, v in sb.fields if k == "mux_signal"}
            sels -= {sb.name for sb in mine[0].signals}
            nested = [f for f in s.struct(nm).fields if isinstance(M.type_leaf(f.type), M.StructRef)]
            if sels and nested:
                sel = draw(st.sampled_from(sorted(sels)))
                inner = s.struct(M.type_leaf(draw(st.sampled_from(nested)).type).name)
                if all(g.name != sel for g in inner.fields):
                    draw(st.sampled_from(inner.fields)).name = sel
    return s


@st.composite
def can_signal_blocks(draw, s: M.Schema, struct_name: str, cfg: CanCfg) -> List[M.SignalBlock]:
    st_ = s.struct(struct_name)
    leaves = reflayout.layout(s, struct_name, True)
    top_scalar = {lf.field: lf for lf in leaves if lf.path == (lf.field,)}  # top-level scalar fields
    out: List[M.SignalBlock] = []
    blocks: Dict[str, List[Tuple[str, Any]]] = {}
    if cfg.big_endian:
        for fname, lf in top_scalar.items():
            if lf.start % 8 == 0 and lf.width in (8, 16, 32, 64) and draw(st.integers(0, 2)) == 0:
                blocks.setdefault(fname, []).append(("endianess", "big"))
            elif draw(st.integers(0, 9)) == 0:
                blocks.setdefault(fname, []).append(("endianess", "little"))
    # a block that names a non-scalar field (an array, an array of structs, a nested struct) with option values that
    # change nothing: the elements / members must still be laid out exactly as without it
    for f in st_.fields:
        if f.name not in top_scalar and draw(st.integers(0, 3)) == 0:
            blocks.setdefault(f.name, []).append(draw(st.sampled_from([("endianess", "little"), ("scale", 1), ("note", "x")])))
    if cfg.mux:
        muxers = [lf for lf in top_scalar.values() if isinstance(lf.type, M.U) and lf.field not in blocks]
        if muxers and len(top_scalar) >= 2 and draw(st.integers(0, 2)) == 0:
            mx = draw(st.sampled_from(muxers))
            cap = min(16, 1 << mx.width)
            muxed = []
            for fname, lf in top_scalar.items():
                if fname != mx.field and draw(st.booleans()):
                    blocks.setdefault(fname, []).append(("mux_count", draw(st.integers(1, cap))))
                    blocks[fname].append(("mux_signal", mx.field))
                    muxed.append(lf)
            # chained multiplexing: a multiplexed unsigned field is itself the selector of another field
            second = [lf for lf in muxed if isinstance(lf.type, M.U)]
            free = [f for f, lf in top_scalar.items() if f != mx.field and not any(k == "mux_signal" for k, _ in blocks.get(f, []))]
            if second and free and draw(st.booleans()):
                sel = draw(st.sampled_from(second))
                tgt = draw(st.sampled_from(free))
                blocks.setdefault(tgt, []).append(("mux_count", draw(st.integers(1, min(16, 1 << sel.width)))))
                blocks[tgt].append(("mux_signal", sel.field))
            if cfg.mux_two_selectors and draw(st.booleans()):
                free2 = [f for f, lf in top_scalar.items() if f != mx.field and f not in blocks]
                sels = [f for f in free2 if isinstance(top_scalar[f].type, M.U)]
                if sels and len(free2) >= 2:
                    sel2 = draw(st.sampled_from(sels))
                    tgt2 = draw(st.sampled_from([f for f in free2 if f != sel2]))
                    blocks.setdefault(tgt2, []).append(("mux_count", draw(st.integers(1, min(16, 1 << top_scalar[sel2].width)))))
                    blocks[tgt2].append(("mux_signal", sel2))
    for fname, fl in blocks.items():
        out.append(M.SignalBlock(fname, fl))
    return out
