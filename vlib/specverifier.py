"""Reference well-formedness predicate (C09), written from the property statement.

Works on a neutral tree:
  structs  : [(name, [field names], packed_bits | None)]      None = variable size
  enums    : [(name, [(enumerator name, value)])]
  impls    : [(name, protocol, type, id | None)]               includes default bindings
  services : [name]
  devices  : [(name, [service names] | None)]
"""

from __future__ import annotations

from typing import Any, Dict, List, Optional, Set, Tuple

from . import model as M
from . import reflayout


def general_violations(t: Dict[str, Any]) -> Set[str]:
    out: Set[str] = set()
    names = [s[0] for s in t["structs"]] + [e[0] for e in t["enums"]]
    if len(set(names)) != len(names):
        out.add("duplicate_type_name")
    pairs = [(i[0], i[1]) for i in t["impls"]]
    if len(set(pairs)) != len(pairs):
        out.add("duplicate_binding")
    for _n, fields, _w in t["structs"]:
        if len(set(fields)) != len(fields):
            out.add("duplicate_field")
        if not fields:
            out.add("empty_struct")
    for _n, items in t["enums"]:
        ns = [n for n, _ in items]
        vs = [v for _, v in items]
        if len(set(ns)) != len(ns):
            out.add("duplicate_enumerator_name")
        if len(set(vs)) != len(vs):
            out.add("duplicate_enumerator_value")
    for _n, svcs in t["devices"]:
        if svcs is not None and any(s not in t["services"] for s in svcs):
            out.add("unknown_service")
    return out


def _struct_names(t: Dict[str, Any]) -> Set[str]:
    return {s[0] for s in t["structs"]}


def _width_of(t: Dict[str, Any], type_name: str) -> Optional[int]:
    for n, _f, w in t["structs"]:
        if n == type_name:
            return w
    return None


def plugin_clause(t: Dict[str, Any], config: str) -> Tuple[str, Set[str]]:
    """-> ('must_fail' | 'must_pass' | 'free', reasons) for the plug-in's own constraint."""
    if config == "general":
        return "must_pass", set()
    known = _struct_names(t)
    reasons: Set[str] = set()
    can = [i for i in t["impls"] if i[1] == "can"]
    anyp = t["impls"]
    if any(i[2] not in known for i in can):
        reasons.add("can_binding_unknown_struct")
    soft: Set[str] = set()
    if any(i[2] not in known for i in anyp):
        soft.add("binding_unknown_struct")
    if config == "dbc":
        ids = [i[3] for i in can if i[3] is not None]
        if len(set(ids)) != len(ids):
            reasons.add("duplicate_can_id")
        ids_all = [i[3] for i in anyp if i[3] is not None]
        if len(set(ids_all)) != len(ids_all):
            soft.add("duplicate_id_any_protocol")
    elif config == "can_c":
        for i in can:
            if i[2] in known:
                w = _width_of(t, i[2])
                if w is not None and w > 64:
                    reasons.add("can_message_wider_than_64")
        for i in anyp:
            if i[2] in known:
                w = _width_of(t, i[2])
                if w is None or w > 64:
                    soft.add("wide_or_variable_message_any_protocol")
    else:
        raise ValueError(config)
    if reasons:
        return "must_fail", reasons
    if soft:
        return "free", soft
    return "must_pass", set()


def verdict(t: Dict[str, Any], config: str) -> Tuple[str, Set[str]]:
    """-> ('fail' | 'pass' | 'free', reasons)."""
    g = general_violations(t)
    if g:
        return "fail", g
    k, r = plugin_clause(t, config)
    return {"must_fail": "fail", "must_pass": "pass", "free": "free"}[k], r


def tree_of_model(s: M.Schema) -> Dict[str, Any]:
    s = s.inlined()
    structs, enums, impls, services, devices = [], [], [], [], []
    first: Dict[str, M.Struct] = {}
    for d in s.decls:
        if isinstance(d, M.Struct):
            first.setdefault(d.name, d)
    view = M.Schema([d for d in s.decls if not isinstance(d, M.Struct)] + list(first.values()))

    def width(st_: M.Struct) -> Optional[int]:
        try:
            return sum(reflayout.wire_width(view, f.type) for f in st_.fields)
        except (reflayout.NotFixedSize, KeyError):
            return None

    for d in s.decls:
        if isinstance(d, M.Struct):
            structs.append((d.name, [f.name for f in d.fields], width(d)))
            impls.append((d.name, "default", d.name, None))
        elif isinstance(d, M.Enum):
            enums.append((d.name, [(n, M.plain_value(v)) for n, v in d.items]))
        elif isinstance(d, M.Impl):
            impls.append((d.eff_name, d.protocol, d.type, M.plain_value(d.get("id"))))
        elif isinstance(d, M.Service):
            services.append(d.name)
        elif isinstance(d, M.Device):
            sv = None
            for k, v in d.fields:
                if k == "services":
                    sv = M.plain_value(v)
            devices.append((d.name, sv))
    return {"structs": structs, "enums": enums, "impls": impls, "services": services, "devices": devices}
