"""Module trees: generation, materialisation on disk, and access to get_fcp with a logger."""

from __future__ import annotations

import os
import shutil
import tempfile
from typing import Any, Dict, List, Optional, Tuple

from hypothesis import strategies as st

from . import model as M
from . import printer
from . import strategies as S


class Names:
    """Globally unique name supply for one generated tree."""

    def __init__(self) -> None:
        self.used: set = set()

    def fresh(self, draw: Any, base: st.SearchStrategy) -> str:
        for _ in range(20):
            n = draw(base)
            if n not in self.used:
                self.used.add(n)
                return n
        i = 0
        while f"N{i}x" in self.used:
            i += 1
        self.used.add(f"N{i}x")
        return f"N{i}x"


module_component = st.from_regex(r"[a-z][a-z0-9_]{0,5}", fullmatch=True).filter(
    lambda x: x not in S.KEYWORDS and x != "main"
)


@st.composite
def module_schema(draw, names: Names, depth: int, max_depth: int, cfg: S.SchemaCfg, extras: bool,
                  used_paths: set, type_names: Optional[st.SearchStrategy] = None) -> M.Schema:
    """One module: declarations that only use types visible *inside this module*."""
    type_names = type_names if type_names is not None else S.pascal_ident
    decls: List[M.Decl] = []
    enums: List[str] = []
    structs: List[str] = []
    n_items = draw(st.integers(1, 4 if depth else 5))
    for _ in range(n_items):
        k = draw(st.integers(0, 9))
        if k <= 2 and depth < max_depth:
            ncomp = draw(st.sampled_from([1, 1, 2, 3]))
            # every path component is globally unique: no file/directory collisions
            path = [names.fresh(draw, module_component) for _ in range(ncomp)]
            if ncomp >= 2 and draw(st.booleans()):
                # same file name in different directories (directories stay unique): "a/common.fcp", "b/common.fcp",
                # and a module called like the root file
                path[-1] = draw(st.sampled_from(["common", "types", "main", "defs"]))
            sub = draw(module_schema(names, depth + 1, max_depth, cfg, extras, used_paths, type_names))
            decls.append(M.Mod(path, sub))
            inl = sub.inlined()
            enums += [e.name for e in inl.enums]
            structs += [s_.name for s_ in inl.structs]
        elif k == 3 and depth < max_depth and draw(st.booleans()):
            # mirrored sub-trees: two directories whose index files are byte-identical ("mod leaf;") while the
            # leaf modules they import differ
            leafname = draw(st.sampled_from(["leaf", "messages", "common"]))
            idxname = draw(st.sampled_from(["index", "all", "main"]))
            for _side in range(2):
                d = names.fresh(draw, module_component)
                leaf_decls: List[M.Decl] = []
                le: List[str] = []
                ls: List[str] = []
                for _ in range(draw(st.integers(1, 2))):
                    nm = names.fresh(draw, type_names)
                    if draw(st.booleans()):
                        leaf_decls.append(draw(S.enum_decl(nm, cfg.enum_max_bits)))
                        le.append(nm)
                    else:
                        leaf_decls.append(draw(S.struct_decl(nm, cfg, le, ls)))
                        ls.append(nm)
                idx = M.Schema([M.Mod([leafname], M.Schema(leaf_decls))])
                decls.append(M.Mod([d, idxname], idx))
                enums += le
                structs += ls
        elif k <= 4:
            nm = names.fresh(draw, type_names)
            decls.append(draw(S.enum_decl(nm, cfg.enum_max_bits)))
            enums.append(nm)
        else:
            nm = names.fresh(draw, type_names)
            decls.append(draw(S.struct_decl(nm, cfg, enums, structs)))
            structs.append(nm)
    if not structs and not enums:
        nm = names.fresh(draw, type_names)
        decls.append(draw(S.struct_decl(nm, cfg, enums, structs)))
        structs.append(nm)
    if extras and structs:
        sch = M.Schema([d for d in M.Schema(decls).inlined().decls])
        taken: set = set()
        fcfg = S.FullCfg()
        for _ in range(draw(st.integers(0, 2))):
            im = draw(S.impl_decl(sch, fcfg, taken))
            if im is not None:
                decls.insert(draw(st.integers(0, len(decls))), im)
        if draw(st.integers(0, 2)) == 0:
            decls.insert(draw(st.integers(0, len(decls))), draw(S.service_decl(sch, names.fresh(draw, S.pascal_ident))))
        if draw(st.integers(0, 2)) == 0:
            decls.insert(draw(st.integers(0, len(decls))),
                         M.Device(names.fresh(draw, S.lower_ident), [("id", draw(st.integers(0, 255)))]))
    return M.Schema(decls)


@st.composite
def module_tree(draw, max_depth: int = 3, extras: bool = True, cfg: Optional[S.SchemaCfg] = None,
                type_names: Optional[st.SearchStrategy] = None) -> M.Schema:
    cfg = cfg or S.SchemaCfg(types=S.TypeCfg(depth=2), max_fields=3, enum_max_bits=16)
    return draw(module_schema(Names(), 0, max_depth, cfg, extras, set(), type_names))


def files_of(root: M.Schema, root_name: str = "main.fcp") -> Dict[str, str]:
    """{relative path: text}; imports resolve relative to the importing file's directory."""
    out: Dict[str, str] = {}

    def emit(s: M.Schema, rel_dir: str, fname: str) -> None:
        out[os.path.join(rel_dir, fname)] = printer.to_text(s)
        for d in s.decls:
            if isinstance(d, M.Mod) and d.schema is not None:
                sub_dir = os.path.join(rel_dir, *d.path[:-1])
                emit(d.schema, sub_dir, d.path[-1] + ".fcp")

    emit(root, "", root_name)
    return out


def module_files(root: M.Schema) -> List[Tuple[str, M.Schema, int]]:
    """[(relative path, module schema, depth)] for every module below the root."""
    out: List[Tuple[str, M.Schema, int]] = []

    def walk(s: M.Schema, rel_dir: str, depth: int) -> None:
        for d in s.decls:
            if isinstance(d, M.Mod) and d.schema is not None:
                sub_dir = os.path.join(rel_dir, *d.path[:-1])
                out.append((os.path.join(sub_dir, d.path[-1] + ".fcp"), d.schema, depth + 1))
                walk(d.schema, sub_dir, depth + 1)

    walk(root, "", 0)
    return out


class Scratch:
    """Scratch directory outside /repo and /verif, removed on exit."""

    def __init__(self, prefix: str = "verif-", base: Optional[str] = None) -> None:
        self.dir = tempfile.mkdtemp(prefix=prefix, dir=base)

    def write(self, files: Dict[str, str]) -> None:
        for rel, text in files.items():
            p = os.path.join(self.dir, rel)
            os.makedirs(os.path.dirname(p), exist_ok=True)
            with open(p, "w") as f:
                f.write(text)

    def path(self, rel: str) -> str:
        return os.path.join(self.dir, rel)

    def close(self) -> None:
        shutil.rmtree(self.dir, ignore_errors=True)

    def __enter__(self) -> "Scratch":
        return self

    def __exit__(self, *a: Any) -> None:
        self.close()


def other_filesystem() -> Optional[str]:
    """A writable directory on another file system than the default temporary directory (or None): renames across the
    two fail with EXDEV, hard links too."""
    try:
        here = os.stat(tempfile.gettempdir()).st_dev
        for cand in ("/dev/shm", "/run/shm", "/var/tmp", os.path.expanduser("~")):
            if os.path.isdir(cand) and os.access(cand, os.W_OK) and os.stat(cand).st_dev != here:
                return cand
    except OSError:
        pass
    return None


def get_fcp_logged(path: str) -> Tuple[str, Any, Any]:
    """-> ('ok', FcpV2, logger) | ('err', FcpError, logger) | ('exc', exception, logger)."""
    from fcp.error import Logger
    from fcp.parser import get_fcp

    logger = Logger({})
    try:
        r = get_fcp(path, logger)
    except Exception as e:
        return "exc", e, logger
    if r.is_err():
        return "err", r.err(), logger
    return "ok", r.unwrap(), logger


def parse_text_logged(text: str) -> Tuple[str, Any, Any]:
    from fcp.error import Logger
    from fcp.parser import get_fcp_from_string

    logger = Logger({})
    try:
        r = get_fcp_from_string(text, logger)
    except Exception as e:
        return "exc", e, logger
    if r.is_err():
        return "err", r.err(), logger
    return "ok", r.unwrap(), logger


def render(logger: Any, err: Any) -> Tuple[Optional[str], Optional[str]]:
    """-> (diagnostic | None, exception text | None)"""
    try:
        out = logger.error(err)
    except Exception as e:
        return None, f"{type(e).__name__}: {e}"
    if not isinstance(out, str):
        return None, f"Logger.error returned {type(out).__name__}"
    return out, None
