"""Generator of the per-schema C driver for the generated CAN C code (C06, C15d, C19)."""

from __future__ import annotations

import math
import struct
from typing import Any, Dict, List, Optional, Tuple

from . import model as M
from . import reflayout
from .refcodec import bits_f32, bits_f64, f32_bits, f64_bits


def snake(pascal: str) -> str:
    return "".join(["_" + c.lower() if c.isupper() else c for c in pascal]).lstrip("_")


def pascal(sn: str) -> str:
    return "".join(x.capitalize() for x in sn.split("_"))


def can_messages(s: M.Schema) -> List[M.Impl]:
    return [i for i in s.impls if i.protocol == "can"]


def device_of(im: M.Impl) -> str:
    return M.plain_value(im.get("device", "global"))


def devices(s: M.Schema) -> List[str]:
    out: List[str] = []
    for im in can_messages(s):
        d = device_of(im)
        if d not in out:
            out.append(d)
    return out


def _set_field(lf: reflayout.Leaf, var: str, src: str) -> str:
    f = f"{var}.{lf.name}"
    t = lf.type
    if isinstance(t, M.F32):
        return f"{{ uint32_t b = (uint32_t){src}; memcpy(&{f}, &b, 4); }}"
    if isinstance(t, M.F64):
        return f"{{ uint64_t b = {src}; memcpy(&{f}, &b, 8); }}"
    if isinstance(t, M.I):
        return f"{f} = (__typeof__({f}))(int64_t){src};"
    return f"{f} = (__typeof__({f})){src};"


def _get_field(lf: reflayout.Leaf, var: str) -> str:
    f = f"{var}.{lf.name}"
    t = lf.type
    if isinstance(t, M.F32):
        return f"{{ uint32_t b; memcpy(&b, &{f}, 4); printf(\" %llx\", (unsigned long long)b); }}"
    if isinstance(t, M.F64):
        return f"{{ uint64_t b; memcpy(&b, &{f}, 8); printf(\" %llx\", (unsigned long long)b); }}"
    if isinstance(t, M.I):
        return f"printf(\" %llx\", (unsigned long long)(int64_t){f});"
    return f"printf(\" %llx\", (unsigned long long){f});"


def driver_source(s: M.Schema, with_scheduler: bool = False) -> str:
    msgs = can_messages(s)
    devs = devices(s)
    out = ["#include <stdio.h>", "#include <stdlib.h>", "#include <string.h>", "#include <stdint.h>", "#include <inttypes.h>"]
    for d in devs:
        out.append(f'#include "{snake(d)}_can.h"')
    out.append("static void print_frame(const char *tag, const CanFrame *f) {")
    out.append('  printf("%s %u %u ", tag, (unsigned)f->id, (unsigned)f->dlc);')
    out.append('  for (int i = 0; i < 8; i++) printf("%02x", f->data[i]);')
    out.append('  printf("\\n");')
    out.append("}")
    if with_scheduler:
        out.append("static void send_cb(const CanFrame *f) { print_frame(\"F\", f); }")
        for d in devs:
            out.append(f"static CanDevice{pascal(d)} dev_{snake(d)};")
    out.append("int main(void) {")
    out.append("  static char line[4096];")
    out.append("  while (fgets(line, sizeof line, stdin)) {")
    out.append("    char op = line[0]; char *p = line + 1; unsigned long k = strtoul(p, &p, 10);")
    out.append("    unsigned long long raw[16]; int n = 0;")
    out.append("    while (n < 16) { char *q; unsigned long long v = strtoull(p, &q, 16); if (q == p) break; raw[n++] = v; p = q; }")
    for k, im in enumerate(msgs):
        leaves = reflayout.layout(s, im.type, True)
        sn = snake(im.eff_name)
        out.append(f"    if (op == 'E' && k == {k}) {{")
        out.append(f"      CanMsg{im.eff_name} m; memset(&m, 0, sizeof m);")
        for j, lf in enumerate(leaves):
            out.append("      " + _set_field(lf, "m", f"raw[{j}]"))
        out.append(f"      CanFrame f = can_encode_msg_{sn}(&m);")
        out.append('      print_frame("E", &f);')
        out.append("    }")
        out.append(f"    if (op == 'D' && k == {k}) {{")
        out.append("      CanFrame f; memset(&f, 0, sizeof f);")
        out.append(f"      f.id = {M.plain_value(im.get('id'))}; f.dlc = {math.ceil(reflayout.total_bits(leaves) / 8)};")
        out.append("      for (int i = 0; i < 8; i++) f.data[i] = (uint8_t)((raw[0] >> (8 * i)) & 0xff);")
        out.append(f"      CanMsg{im.eff_name} m = can_decode_msg_{sn}(&f);")
        out.append('      printf("D");')
        for lf in leaves:
            out.append("      " + _get_field(lf, "m"))
        out.append('      printf("\\n");')
        out.append("    }")
        if with_scheduler:
            d = device_of(im)
            out.append(f"    if (op == 'V' && k == {k}) {{")
            for j, lf in enumerate(leaves):
                out.append("      " + _set_field(lf, f"dev_{snake(d)}.{sn}", f"raw[{j}]"))
            out.append('      printf("V\\n");')
            out.append("    }")
    if with_scheduler:
        for di, d in enumerate(devs):
            out.append(f"    if (op == 'T' && k == {di}) {{")
            out.append(f"      can_send_{snake(d)}_msgs_scheduled(&dev_{snake(d)}, (uint32_t)raw[0], send_cb);")
            out.append('      printf("T\\n");')
            out.append("    }")
    out.append("    fflush(stdout);")
    out.append("  }")
    out.append("  return 0;")
    out.append("}")
    return "\n".join(out) + "\n"


def raw_args(s: M.Schema, leaves: List[reflayout.Leaf], v: Dict[str, Any]) -> List[str]:
    out = []
    for lf in leaves:
        x = reflayout.get_path(v, lf.path)
        t = lf.type
        if isinstance(t, M.I):
            out.append(format(x & 0xFFFFFFFFFFFFFFFF, "x"))
        else:
            out.append(format(reflayout.raw_of(s, t, x), "x"))
    return out


def parse_decoded(s: M.Schema, leaves: List[reflayout.Leaf], parts: List[str]) -> Dict[str, Any]:
    out: Dict[str, Any] = {}
    for lf, p in zip(leaves, parts):
        raw = int(p, 16)
        t = lf.type
        if isinstance(t, M.F32):
            out[lf.name] = bits_f32(raw & 0xFFFFFFFF)
        elif isinstance(t, M.F64):
            out[lf.name] = bits_f64(raw)
        elif isinstance(t, M.I):
            out[lf.name] = raw - (1 << 64) if raw >> 63 else raw
        else:
            out[lf.name] = raw
    return out
