"""Shared case generator / classification for the Python codec properties (C01, C02, C16)."""

from __future__ import annotations

from typing import Any, Dict, List, Tuple

from hypothesis import strategies as st

from . import model as M
from . import printer, refcodec
from . import strategies as S
from .runner import pickle_b64


def codec_cfg(tier: str, dup_ids: bool = True) -> S.SchemaCfg:
    return S.SchemaCfg(
        types=S.TypeCfg(depth=3 if tier == "quick" else 5),
        max_enums=3,
        max_structs=4 if tier == "quick" else 6,
        max_fields=6,
        enum_max_bits=63,
        dup_ids=dup_ids,
        self_named_field=True,
    )


@st.composite
def codec_case(draw, tier: str, n_values: int, vcfg: S.ValCfg = None, dup_ids: bool = True):
    s = draw(S.data_schema(codec_cfg(tier, dup_ids)))
    # prefer later structs (they nest earlier ones)
    names = [x.name for x in s.structs]
    name = draw(st.sampled_from(names + names[-1:] * 2))
    if vcfg is None:
        vcfg = S.ValCfg(int_floats=True)
    vals = draw(st.lists(S.struct_value(s, name, vcfg), min_size=1, max_size=n_values))
    if (vcfg is None or vcfg.pad_blocks) and draw(st.integers(0, 5)) == 0:
        padded = pad_to_block(s, name, vals[0], draw(st.sampled_from([256, 4096, 4096, 8192])),
                              draw(st.sampled_from([0, 0, -1, 1, "len", "len"])))
        if padded is not None:
            vals = [padded] + list(vals[1:])
    return s, name, vals


@st.composite
def variant_of(draw, s: M.Schema) -> M.Schema:
    """An edited copy of `s`: the same declaration names, other contents (enum maxima, integer widths, field ids and
    declaration order).  What a long-lived process sees when a schema file is edited and re-loaded, or when two
    projects use the same names: state kept by the codec across calls (caches keyed by declaration name, by id() of
    a freed schema object, ...) then meets a schema it does not describe."""
    import copy

    v = copy.deepcopy(s)
    for e in v.enums:
        k = draw(st.integers(0, 3))
        if k == 0:
            top = max(val for _n, val in e.items)
            sh = draw(st.integers(1, 12))
            while sh and (top << sh) >= 2 ** 63:
                sh -= 1
            e.items = [(n, val << sh) for n, val in e.items]
        elif k == 1:
            top = max(val for _n, val in e.items)
            e.items = [(n, val) for n, val in e.items if val != top] or [(e.items[0][0], top >> 1)]
        elif k == 2:
            top = max(val for _n, val in e.items)
            e.items = e.items + [(e.items[0][0] + "Xq", min(2 ** 63 - 1, top * 5 + 3))]
    for st_ in v.structs:
        for f in st_.fields:
            if isinstance(f.type, (M.U, M.I)) and draw(st.integers(0, 2)) == 0:
                f.type = type(f.type)(draw(st.integers(1, 64)))
        if len(st_.fields) >= 2 and draw(st.integers(0, 2)) == 0:
            ids = draw(st.permutations([f.fid for f in st_.fields]))
            for f, i in zip(st_.fields, ids):
                f.fid = i
        if len(st_.fields) >= 2 and draw(st.booleans()):
            st_.fields = list(reversed(st_.fields))
    return v


@st.composite
def codec_history(draw, tier: str, n_values: int, vcfg: S.ValCfg = None, dup_ids: bool = True):
    """-> list of steps (schema, struct, values) executed one after the other in the same interpreter: the generated
    case, then (one case in four) 1-3 same-named variants of it and the original once more."""
    s, name, vals = draw(codec_case(tier, n_values, vcfg, dup_ids))
    steps = [(s, name, vals)]
    if draw(st.integers(0, 3)) == 0:
        vc = vcfg if vcfg is not None else S.ValCfg(int_floats=True)
        for _ in range(draw(st.integers(1, 3))):
            v = draw(variant_of(s))
            steps.append((v, name, draw(st.lists(S.struct_value(v, name, vc), min_size=1, max_size=3))))
        steps.append((s, name, vals[:2]))
    if draw(st.integers(0, 3)) == 0:
        # a tool that edits the loaded schema object itself: field ids are permuted and the declarations re-ordered IN
        # PLACE (same object, same field count, same types); the codec must follow the object as it is now
        import copy

        s2 = copy.deepcopy(s)
        for st_ in s2.structs:
            if len(st_.fields) >= 2:
                ids = draw(st.permutations([f.fid for f in st_.fields]))
                for f, i in zip(st_.fields, ids):
                    f.fid = i
                st_.fields = list(draw(st.permutations(st_.fields)))
        steps.append((s2, name, vals[:2], "inplace"))
    return steps


def renumber_in_place(fcp: Any, s2: M.Schema) -> None:
    """Make the live FcpV2 object equal to the description s2 (which differs from what was parsed only in field ids and
    declaration order) by editing its Struct objects in place."""
    for st_ in s2.structs:
        real = fcp.get_struct(st_.name).unwrap()
        by_name = {f.name: f for f in real.fields}
        new = []
        for f in st_.fields:
            rf = by_name[f.name]
            rf.field_id = f.fid
            new.append(rf)
        real.fields[:] = new


@st.composite
def codec_alternation(draw, tier: str):
    """-> (steps, cycles): two same-named revisions of a schema that one interpreter loads, uses and drops alternately
    `cycles` times.  State keyed by the identity (id()) of a schema object that has been freed needs the allocator to
    hand the address out again, which a few dozen load/drop cycles make practically certain."""
    s, name, vals = draw(codec_case(tier, 2, S.ValCfg(int_floats=True, pad_blocks=False, allow_long=False, magic_lengths=False)))
    v = draw(variant_of(s))
    vvals = draw(st.lists(S.struct_value(v, name, S.ValCfg(int_floats=True, pad_blocks=False, allow_long=False, magic_lengths=False)), min_size=1, max_size=2))
    return [(s, name, vals[:2]), (v, name, vvals)], draw(st.sampled_from([16, 32]))


def pad_to_block(s: M.Schema, name: str, v: Dict[str, Any], block: int, delta: Any):
    """Stretch one top-level string / byte-array field so that the whole encoding is exactly `block` bytes
    (+ delta): block-size boundaries of buffers are reached whatever else the struct contains."""
    st_ = s.struct(name)
    for f in st_.fields:
        is_str = isinstance(f.type, M.Str)
        is_bytes = isinstance(f.type, M.Dyn) and isinstance(f.type.t, (M.U, M.I)) and f.type.t.n == 8
        if not (is_str or is_bytes):
            continue
        base = dict(v)
        base[f.name] = "" if is_str else []
        _d, ann = refcodec.encode_annotated(s, name, base)
        bits = sum(w for _k, _p, _o, w in ann)
        if delta == "len":
            n = block  # the payload itself is one block long
        else:
            n = (8 * (block + delta) - bits) // 8
        if n < 0:
            continue
        out = dict(v)
        out[f.name] = ("fcp~" * (n // 4 + 1))[:n] if is_str else [(i * 37) & 0x7F for i in range(n)]
        return out
    return None


def classify(s: M.Schema, name: str, v: Dict[str, Any]) -> Tuple[bytes, List[str], bool]:
    """-> (reference bytes, classes, non-trivial?) from the reference annotation."""
    data, ann = refcodec.encode_annotated(s, name, v)
    word = int.from_bytes(data, "little")
    cl = set()
    for kind, path, off, w in ann:
        if kind in ("f32", "f64") and off % 8:
            cl.add("misaligned_float")
        if kind == "len_str" and off % 8:
            cl.add("misaligned_str")
        if kind == "len_dyn" and off % 8:
            cl.add("misaligned_dyn")
        if kind == "flag" and off % 8:
            cl.add("misaligned_opt")
        if kind == "enum":
            cl.add("enum")
        if kind == "i":
            raw = (word >> off) & ((1 << w) - 1)
            if raw == 1 << (w - 1):
                cl.add("signed_min")
            if raw >> (w - 1):
                cl.add("negative")
        if kind in ("u", "i", "enum") and w % 8:
            cl.add("sub_byte")
        if "?" in path:
            cl.add("optional_some")
    st_ = s.struct(name)
    depth = max(M.type_depth(f.type) for f in st_.fields)
    if depth >= 2:
        cl.add("nested_container")
    if any(isinstance(M.type_leaf(f.type), M.StructRef) for f in st_.fields):
        cl.add("nested_struct")
    ids = [f.fid for f in st_.fields]
    if ids != sorted(ids):
        cl.add("ids_out_of_order")
    if any(k.startswith("len_") for k, *_ in ann):
        cl.add("length_prefixed")
    nontrivial = bool(
        cl & {"misaligned_float", "misaligned_str", "misaligned_dyn", "misaligned_opt", "enum", "signed_min",
              "nested_container"}
    )
    return data, sorted(cl), nontrivial


def poison(fcp: Any, s: M.Schema, name: str, v: Dict[str, Any], k: int) -> None:
    """Calls that are expected to FAIL, made between two checked calls: encoding a value that lacks its last field (the
    encoder has already emitted the fields before it when it notices), encoding a wrongly typed value, decoding a
    truncated message.  Whatever they do (raise, or not) is ignored; the point is that a failed call must not leave
    anything behind that changes what the next, valid call produces."""
    from fcp import serde

    st_ = s.struct(name)
    order = sorted(st_.fields, key=lambda f: f.fid)
    try:
        if k % 3 == 0 and len(order) >= 2:
            bad = {f.name: v[f.name] for f in order[:-1]}
            serde.encode(fcp, name, bad)
        elif k % 3 == 1:
            bad = dict(v)
            bad[order[-1].name] = object()
            serde.encode(fcp, name, bad)
        else:
            data = refcodec.encode(s, name, v)
            if len(data) >= 1:
                serde.decode(fcp, name, bytearray(data[: len(data) // 2]))
    except BaseException as e:  # noqa: BLE001 - expected
        if isinstance(e, (KeyboardInterrupt, SystemExit)):
            raise


def case_json(s: M.Schema, name: str, v: Any, **more: Any) -> Dict[str, Any]:
    return {
        "schema_text": printer.to_text(s),
        "schema_pickle": pickle_b64(s),
        "struct": name,
        "value": refcodec.canon(v),
        "value_pickle": pickle_b64(v),
        **more,
    }


# ------------------------------------------------------------------ known finding
def signed_min_image(s: M.Schema, t: M.Type, v: Any) -> Any:
    """The value the pinned decoder is *known* to return: every signed leaf that equals
    -2^(N-1) comes back as +2^(N-1) (finding PY-SIGNED-MIN); everything else unchanged."""
    if isinstance(t, M.I):
        return (1 << (t.n - 1)) if v == -(1 << (t.n - 1)) else v
    if isinstance(t, M.StructRef):
        return {f.name: signed_min_image(s, f.type, v[f.name]) for f in s.struct(t.name).fields}
    if isinstance(t, (M.Arr, M.Dyn)):
        return [signed_min_image(s, t.t, x) for x in v]
    if isinstance(t, M.Opt):
        return None if v is None else signed_min_image(s, t.t, v)
    return v


def matches_signed_min_finding(s: M.Schema, name: str, v: Any, decoded: Any) -> bool:
    img = signed_min_image(s, M.StructRef(name), v)
    return (not refcodec.same_value(img, v)) and refcodec.same_value(decoded, img)


def float_norm(s: M.Schema, t: M.Type, v: Any) -> Any:
    """The value a decoder returns for `v`: a Python int given to a float field comes back as the float."""
    if isinstance(t, (M.F32, M.F64)):
        return float(v)
    if isinstance(t, M.StructRef):
        return {f.name: float_norm(s, f.type, v[f.name]) for f in s.struct(t.name).fields}
    if isinstance(t, (M.Arr, M.Dyn)):
        return [float_norm(s, t.t, x) for x in v]
    if isinstance(t, M.Opt):
        return None if v is None else float_norm(s, t.t, v)
    return v
