"""Reference (canonical) FCP wire codec over vlib.model descriptions.

Written from the property text, the project's cross-language vectors
(tests/standardized/fcp_tests.json) and buffer.h/decoders.h.  Shares no code with
fcp.serde.  The message is one big integer filled LSB-first.
"""

from __future__ import annotations

import json
import os
import struct
from typing import Any, Dict, List, Tuple

from . import model as M


class Truncated(Exception):
    pass


class _W:
    """LSB-first bit writer; amortised O(1) per push (whole bytes are flushed out of a small accumulator)."""

    def __init__(self) -> None:
        self.chunks: List[bytes] = []
        self.acc = 0
        self.nacc = 0
        self.bits = 0
        self.ann: List[Tuple[str, str, int, int]] = []  # (kind, path, offset, width)

    def push(self, word: int, n: int, kind: str, path: str) -> None:
        self.ann.append((kind, path, self.bits, n))
        self.acc |= (word & ((1 << n) - 1)) << self.nacc
        self.nacc += n
        self.bits += n
        if self.nacc >= 512:
            nb = self.nacc // 8
            self.chunks.append((self.acc & ((1 << (8 * nb)) - 1)).to_bytes(nb, "little"))
            self.acc >>= 8 * nb
            self.nacc -= 8 * nb

    def bytes(self) -> bytes:
        tail = self.acc.to_bytes((self.nacc + 7) // 8, "little")
        return b"".join(self.chunks) + tail


class _R:
    """LSB-first bit reader over the input bytes; O(width) per read."""

    def __init__(self, data: bytes) -> None:
        self.data = bytes(data)
        self.total = 8 * len(self.data)
        self.pos = 0

    def read(self, n: int) -> int:
        if self.pos + n > self.total:
            raise Truncated(f"need {n} bits at {self.pos}, have {self.total}")
        b0 = self.pos >> 3
        b1 = (self.pos + n + 7) >> 3
        v = (int.from_bytes(self.data[b0:b1], "little") >> (self.pos & 7)) & ((1 << n) - 1)
        self.pos += n
        return v


def f32_bits(x: float) -> int:
    return struct.unpack("<I", struct.pack("<f", x))[0]


def f64_bits(x: float) -> int:
    return struct.unpack("<Q", struct.pack("<d", x))[0]


def bits_f32(w: int) -> float:
    return struct.unpack("<f", struct.pack("<I", w))[0]


def bits_f64(w: int) -> float:
    return struct.unpack("<d", struct.pack("<Q", w))[0]


def sorted_fields(st: M.Struct) -> List[M.Field]:
    return sorted(st.fields, key=lambda f: f.fid)


def _enc(w: _W, s: M.Schema, t: M.Type, v: Any, path: str) -> None:
    if isinstance(t, M.U):
        w.push(v, t.n, "u", path)
    elif isinstance(t, M.I):
        w.push(v, t.n, "i", path)
    elif isinstance(t, M.F32):
        w.push(f32_bits(v), 32, "f32", path)
    elif isinstance(t, M.F64):
        w.push(f64_bits(v), 64, "f64", path)
    elif isinstance(t, M.EnumRef):
        w.push(v, s.enum(t.name).width(), "enum", path)
    elif isinstance(t, M.Str):
        payload = v.encode("utf-8")
        w.push(len(payload), 32, "len_str", path)
        for i, c in enumerate(payload):
            w.push(c, 8, "char", f"{path}[{i}]")
    elif isinstance(t, M.StructRef):
        _enc_struct(w, s, s.struct(t.name), v, path)
    elif isinstance(t, M.Arr):
        assert len(v) == t.n
        for i in range(t.n):
            _enc(w, s, t.t, v[i], f"{path}[{i}]")
    elif isinstance(t, M.Dyn):
        w.push(len(v), 32, "len_dyn", path)
        for i, x in enumerate(v):
            _enc(w, s, t.t, x, f"{path}[{i}]")
    elif isinstance(t, M.Opt):
        w.push(0 if v is None else 1, 8, "flag", path)
        if v is not None:
            _enc(w, s, t.t, v, path + "?")
    else:
        raise TypeError(t)


def _enc_struct(w: _W, s: M.Schema, st: M.Struct, v: Dict[str, Any], path: str) -> None:
    for f in sorted_fields(st):
        _enc(w, s, f.type, v[f.name], f"{path}.{f.name}" if path else f.name)


def encode(s: M.Schema, name: str, v: Dict[str, Any]) -> bytes:
    w = _W()
    _enc_struct(w, s, s.struct(name), v, "")
    return w.bytes()


def encode_annotated(s: M.Schema, name: str, v: Dict[str, Any]) -> Tuple[bytes, List[Tuple[str, str, int, int]]]:
    w = _W()
    _enc_struct(w, s, s.struct(name), v, "")
    return w.bytes(), w.ann


def _dec(r: _R, s: M.Schema, t: M.Type) -> Any:
    if isinstance(t, M.U):
        return r.read(t.n)
    if isinstance(t, M.I):
        x = r.read(t.n)
        return x - (1 << t.n) if x >> (t.n - 1) else x
    if isinstance(t, M.F32):
        return bits_f32(r.read(32))
    if isinstance(t, M.F64):
        return bits_f64(r.read(64))
    if isinstance(t, M.EnumRef):
        return r.read(s.enum(t.name).width())
    if isinstance(t, M.Str):
        n = r.read(32)
        if r.pos + 8 * n > r.total:
            raise Truncated("string payload")
        return bytes(r.read(8) for _ in range(n)).decode("utf-8")
    if isinstance(t, M.StructRef):
        return _dec_struct(r, s, s.struct(t.name))
    if isinstance(t, M.Arr):
        return [_dec(r, s, t.t) for _ in range(t.n)]
    if isinstance(t, M.Dyn):
        n = r.read(32)
        out = []
        for _ in range(n):
            out.append(_dec(r, s, t.t))
        return out
    if isinstance(t, M.Opt):
        flag = r.read(8)
        return _dec(r, s, t.t) if flag else None
    raise TypeError(t)


def _dec_struct(r: _R, s: M.Schema, st: M.Struct) -> Dict[str, Any]:
    out = {}
    for f in sorted_fields(st):
        out[f.name] = _dec(r, s, f.type)
    return out


def decode(s: M.Schema, name: str, data: bytes) -> Dict[str, Any]:
    return _dec_struct(_R(data), s, s.struct(name))


# ------------------------------------------------------------------ value comparison
def canon(v: Any) -> Any:
    """Canonical, hashable-by-json form: floats become their bit pattern (NaN unified)."""
    if isinstance(v, float):
        if v != v:
            return {"f": "nan"}
        return {"f": f64_bits(v)}
    if isinstance(v, dict):
        return {k: canon(x) for k, x in v.items()}
    if isinstance(v, (list, tuple)):
        return [canon(x) for x in v]
    return v


def same_value(a: Any, b: Any) -> bool:
    """Structural equality, floats bit-for-bit (NaN == NaN)."""
    if isinstance(a, bool) or isinstance(b, bool):
        return False
    if isinstance(a, float) or isinstance(b, float):
        if not (isinstance(a, float) and isinstance(b, float)):
            return False
        if a != a or b != b:
            return a != a and b != b
        return f64_bits(a) == f64_bits(b)
    if isinstance(a, dict) and isinstance(b, dict):
        return a.keys() == b.keys() and all(same_value(a[k], b[k]) for k in a)
    if isinstance(a, list) and isinstance(b, list):
        return len(a) == len(b) and all(same_value(x, y) for x, y in zip(a, b))
    if type(a) is not type(b):
        return False
    return a == b


# ------------------------------------------------------- oracle self-test on vectors
def _vector_schema_001() -> M.Schema:
    S = M.Struct
    F = M.Field
    return M.Schema(
        [
            S("S1", [F("s0", 0, M.U(8)), F("s1", 1, M.I(8))]),
            S("S2", [F("s0", 0, M.U(16)), F("s1", 1, M.I(16))]),
            S("S3", [F("s0", 0, M.U(32)), F("s1", 1, M.I(32))]),
            S("S4", [F("s0", 0, M.U(64)), F("s1", 1, M.I(64))]),
            S("S5", [F("s0", 0, M.F32()), F("s1", 1, M.F64())]),
            M.Enum("E", [("S0", 0), ("S1", 1), ("S2", 2)]),
            S("S6", [F("s1", 0, M.EnumRef("E"))]),
            S("S7", [F("s1", 0, M.Arr(M.U(8), 4))]),
            S("S8", [F("s1", 0, M.Arr(M.U(16), 4))]),
            S("S9", [F("s1", 0, M.Arr(M.EnumRef("E"), 4))]),
        ]
    )


def _vector_schema_002() -> M.Schema:
    S = M.Struct
    F = M.Field
    return M.Schema(
        [
            M.Enum("E", [("S0", 0), ("S1", 1), ("S2", 2)]),
            S("S1", [F("s1", 0, M.Str())]),
            S("S2", [F("s1", 0, M.Dyn(M.U(8)))]),
            S("S3", [F("s1", 0, M.Dyn(M.EnumRef("E")))]),
            S("S4", [F("s1", 0, M.Opt(M.U(8)))]),
        ]
    )


_SYMS = {
    "ULONG_MAX": 2**64 - 1,
    "ULLONG_MAX": 2**64 - 1,
    "LONG_MAX": 2**63 - 1,
    "LLONG_MAX": 2**63 - 1,
    "LONG_MIN": -(2**63),
    "LLONG_MIN": -(2**63),
}


def _vec_int(raw: Any) -> int:
    if isinstance(raw, int):
        return raw
    if raw in _SYMS:
        return _SYMS[raw]
    return int(raw, 0)


def vector_value(s: M.Schema, t: M.Type, raw: Any) -> Any:
    """Convert the JSON notation used by fcp_tests.json into a Python value."""
    if isinstance(t, (M.U, M.I)):
        return _vec_int(raw)
    if isinstance(t, (M.F32, M.F64)):
        return float(raw)
    if isinstance(t, M.EnumRef):
        if isinstance(raw, str) and not raw.lstrip("-").isdigit():
            return dict(s.enum(t.name).items)[raw]
        return _vec_int(raw)
    if isinstance(t, M.Str):
        return str(raw)
    if isinstance(t, (M.Arr, M.Dyn)):
        return [vector_value(s, t.t, x) for x in raw]
    if isinstance(t, M.Opt):
        return None if raw is None else vector_value(s, t.t, raw)
    raise TypeError(t)


def load_vectors(repo: str = os.environ.get("VERIF_REPO", "/repo")) -> List[Tuple[M.Schema, str, str, Dict[str, Any], bytes, str]]:
    """-> [(schema description, schema file, datatype, value, bytes, test name)]."""
    base = f"{repo}/tests/standardized"
    suites = json.load(open(f"{base}/fcp_tests.json"))
    out = []
    for suite in suites:
        sch = {"001_basic_values.fcp": _vector_schema_001, "002_optional_features.fcp": _vector_schema_002}[
            suite["schema"]
        ]()
        for t in suite["tests"]:
            st = sch.struct(t["datatype"])
            val = {}
            for k, raw in t["decoded"].items():
                fname = k.split(":")[1]
                val[fname] = vector_value(sch, st.field(fname).type, raw)
            data = bytes(_vec_int(x) for x in t["encoded"])
            out.append((sch, suite["schema"], t["datatype"], val, data, t["name"]))
    return out


def self_test(repo: str = os.environ.get("VERIF_REPO", "/repo")) -> int:
    """Raises AssertionError when the reference disagrees with the project's vectors."""
    vecs = load_vectors(repo)
    for sch, _f, dt, val, data, name in vecs:
        enc = encode(sch, dt, val)
        assert enc == data, f"reference encode differs on vector {name}: {enc.hex()} vs {data.hex()}"
        dec = decode(sch, dt, data)
        assert same_value(dec, val), f"reference decode differs on vector {name}: {dec} vs {val}"
    return len(vecs)
