"""Description -> the dict FcpV2.to_dict() must return, and the reflection record."""

from __future__ import annotations

from typing import Any, Dict, List

from . import model as M


def type_dict(t: M.Type) -> Dict[str, Any]:
    if isinstance(t, M.U):
        return {"name": M.type_text(t), "type": "unsigned"}
    if isinstance(t, M.I):
        return {"name": M.type_text(t), "type": "signed"}
    if isinstance(t, M.F32):
        return {"name": "f32", "type": "float"}
    if isinstance(t, M.F64):
        return {"name": "f64", "type": "double"}
    if isinstance(t, M.Str):
        return {"type": "str"}
    if isinstance(t, M.EnumRef):
        return {"name": t.name, "type": "Enum"}
    if isinstance(t, M.StructRef):
        return {"name": t.name, "type": "Struct"}
    if isinstance(t, M.Arr):
        return {"underlying_type": type_dict(t.t), "size": t.n, "type": "Array"}
    if isinstance(t, M.Dyn):
        return {"underlying_type": type_dict(t.t), "type": "DynamicArray"}
    if isinstance(t, M.Opt):
        return {"underlying_type": type_dict(t.t), "type": "Optional"}
    raise TypeError(t)


def field_dict(f: M.Field) -> Dict[str, Any]:
    d: Dict[str, Any] = {"name": f.name, "field_id": f.fid, "type": type_dict(f.type)}
    if f.unit is not None:
        d["unit"] = f.unit
    if f.rng is not None:
        d["min_value"] = float(f.rng[0])
        d["max_value"] = float(f.rng[1])
    return d


def _ext_dict(fields: List[Any]) -> Dict[str, Any]:
    out: Dict[str, Any] = {}
    for k, v in fields:
        out[k] = M.plain_value(v)
    return out


def to_dict_expected(s: M.Schema) -> Dict[str, Any]:
    s = s.inlined()
    structs, enums, impls, services, devices = [], [], [], [], []
    for d in s.decls:
        if isinstance(d, M.Struct):
            structs.append({"name": d.name, "fields": [field_dict(f) for f in d.fields]})
            impls.append({"name": d.name, "protocol": "default", "type": d.name, "fields": {}, "signals": []})
        elif isinstance(d, M.Enum):
            enums.append({"name": d.name, "enumeration": [{"name": n, "value": M.plain_value(v)} for n, v in d.items]})
        elif isinstance(d, M.Impl):
            impls.append({
                "name": d.eff_name,
                "protocol": d.protocol,
                "type": d.type,
                "fields": _ext_dict(d.fields),
                "signals": [{"name": sb.name, "fields": _ext_dict(sb.fields)} for sb in d.signals],
            })
        elif isinstance(d, M.Service):
            services.append({
                "name": d.name,
                "id": d.id,
                "methods": [{"name": m.name, "id": m.id, "input": m.input, "output": m.output} for m in d.methods],
            })
        elif isinstance(d, M.Device):
            devices.append({"name": d.name, "fields": _ext_dict(d.fields)})
    return {"structs": structs, "enums": enums, "impls": impls, "services": services, "devices": devices,
            "version": "3.0"}


def strict_eq(a: Any, b: Any) -> bool:
    """== that also distinguishes int from float and is order-sensitive for lists."""
    if isinstance(a, bool) or isinstance(b, bool):
        return a is b
    if isinstance(a, float) != isinstance(b, float):
        return False
    if isinstance(a, dict) and isinstance(b, dict):
        return a.keys() == b.keys() and all(strict_eq(a[k], b[k]) for k in a)
    if isinstance(a, (list, tuple)) and isinstance(b, (list, tuple)):
        return len(a) == len(b) and all(strict_eq(x, y) for x, y in zip(a, b))
    if type(a) is not type(b) and not (isinstance(a, (list, tuple)) and isinstance(b, (list, tuple))):
        return False
    if isinstance(a, float):
        return a == b or (a != a and b != b)
    return a == b


def first_diff(a: Any, b: Any, path: str = "") -> str:
    if isinstance(a, dict) and isinstance(b, dict):
        for k in list(a.keys()) + [k for k in b if k not in a]:
            if k not in a:
                return f"{path}/{k}: missing on the left, right={b[k]!r}"
            if k not in b:
                return f"{path}/{k}: left={a[k]!r}, missing on the right"
            if not strict_eq(a[k], b[k]):
                return first_diff(a[k], b[k], f"{path}/{k}")
        return ""
    if isinstance(a, (list, tuple)) and isinstance(b, (list, tuple)):
        if len(a) != len(b):
            return f"{path}: length {len(a)} vs {len(b)}: {a!r} vs {b!r}"[:500]
        for i, (x, y) in enumerate(zip(a, b)):
            if not strict_eq(x, y):
                return first_diff(x, y, f"{path}[{i}]")
        return ""
    return f"{path}: {a!r} vs {b!r}"


# ----------------------------------------------------------------------- reflection
def type_chain(t: M.Type) -> List[Dict[str, Any]]:
    if isinstance(t, M.U):
        return [{"name": M.type_text(t), "type": "unsigned", "size": 1}]
    if isinstance(t, M.I):
        return [{"name": M.type_text(t), "type": "signed", "size": 1}]
    if isinstance(t, M.F32):
        return [{"name": "f32", "type": "float", "size": 1}]
    if isinstance(t, M.F64):
        return [{"name": "f64", "type": "double", "size": 1}]
    if isinstance(t, M.Str):
        return [{"name": "str", "type": "str", "size": 1}]
    if isinstance(t, M.EnumRef):
        return [{"name": t.name, "type": "Enum", "size": 1}]
    if isinstance(t, M.StructRef):
        return [{"name": t.name, "type": "Struct", "size": 1}]
    if isinstance(t, M.Arr):
        return [{"name": "Array", "type": "Array", "size": t.n}] + type_chain(t.t)
    if isinstance(t, M.Dyn):
        return [{"name": "DynamicArray", "type": "DynamicArray", "size": 1}] + type_chain(t.t)
    if isinstance(t, M.Opt):
        return [{"name": "Optional", "type": "Optional", "size": 1}] + type_chain(t.t)
    raise TypeError(t)


def _dict_fields(fields: List[Any]) -> List[Dict[str, str]]:
    return [{"name": k, "value": str(v)} for k, v in _ext_dict(fields).items()]


def reflection_expected(s: M.Schema) -> Dict[str, Any]:
    """The reflection record without any 'meta' key."""
    s = s.inlined()
    structs, enums, impls, services = [], [], [], []
    for d in s.decls:
        if isinstance(d, M.Struct):
            structs.append({
                "name": d.name,
                "fields": [
                    {
                        "name": f.name,
                        "field_id": f.fid,
                        "type": type_chain(f.type),
                        "unit": f.unit,
                        "min_value": None if f.rng is None else float(f.rng[0]),
                        "max_value": None if f.rng is None else float(f.rng[1]),
                    }
                    for f in d.fields
                ],
            })
            impls.append({"name": d.name, "protocol": "default", "type": d.name, "fields": [], "signals": []})
        elif isinstance(d, M.Enum):
            enums.append({"name": d.name, "enumeration": [{"name": n, "value": v} for n, v in d.items]})
        elif isinstance(d, M.Impl):
            impls.append({
                "name": d.eff_name,
                "protocol": d.protocol,
                "type": d.type,
                "fields": _dict_fields(d.fields),
                "signals": [{"name": sb.name, "fields": _dict_fields(sb.fields)} for sb in d.signals],
            })
        elif isinstance(d, M.Service):
            services.append({
                "name": d.name,
                "id": d.id,
                "methods": [{"name": m.name, "id": m.id, "input": m.input, "output": m.output} for m in d.methods],
            })
    return {"tag": [0x66, 0x63, 0x70], "version": 3000, "structs": structs, "enums": enums, "impls": impls,
            "services": services}


def strip_meta(x: Any) -> Any:
    if isinstance(x, dict):
        return {k: strip_meta(v) for k, v in x.items() if k != "meta"}
    if isinstance(x, list):
        return [strip_meta(v) for v in x]
    return x
