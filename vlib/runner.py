"""Common runner: tiers, seeds, 16-way sharding, exit codes, VIOLATION / KNOWN-FINDING
lines, replay files and the evidence writer.

Exit codes: 0 property held on everything explored; 1 violation (a line
`VIOLATION property=<ID> replay=<path>` is printed); 2 harness error / inconclusive
(never a violation).
"""

from __future__ import annotations

import argparse
import base64
import collections
import hashlib
import importlib
import json
import os
import pickle
import sys
import time
import traceback
import concurrent.futures
from concurrent.futures import ProcessPoolExecutor
from typing import Any, Callable, Dict, List, Optional

VERIF = os.path.dirname(os.path.dirname(os.path.abspath(__file__)))
REPO = os.environ.get("VERIF_REPO", "/repo")

for _p in ("fcp_dbc", "fcp_nop", "fcp_can_c", "fcp_cpp"):
    _d = os.path.join(REPO, "plugins", _p)
    if _d not in sys.path:
        sys.path.append(_d)


class HarnessError(Exception):
    """The check itself cannot run / is inconclusive (exit 2)."""


class Violation(Exception):
    """The property is violated by `case` (JSON-serialisable dict)."""

    def __init__(self, message: str, case: Dict[str, Any]):
        super().__init__(message)
        self.message = message
        self.case = case


def pickle_b64(obj: Any) -> str:
    return base64.b64encode(pickle.dumps(obj)).decode()


def unpickle_b64(s: str) -> Any:
    return pickle.loads(base64.b64decode(s))


def sha(obj: Any) -> str:
    return hashlib.sha1(json.dumps(obj, sort_keys=True, default=repr).encode()).hexdigest()


class Recorder:
    """Per-shard counters, merged by the parent."""

    def __init__(self, max_samples: int = 4) -> None:
        self.evaluations = 0
        self.nontrivial: set = set()
        self.classes: collections.Counter = collections.Counter()
        self.samples: List[Any] = []
        self.max_samples = max_samples
        self.violations: List[Dict[str, Any]] = []
        self.known_hits: collections.Counter = collections.Counter()
        self.rejected_by_frontend = 0
        self.frontend_attempts = 0
        self.extra: Dict[str, Any] = {}
        self.frozen = False

    # -- counting
    def eval(self, n: int = 1) -> None:
        if not self.frozen:
            self.evaluations += n

    def nt(self, key: Any) -> None:
        if not self.frozen:
            self.nontrivial.add(key if isinstance(key, str) and len(key) == 40 else sha(key))

    def cls(self, *names: str) -> None:
        if not self.frozen:
            for n in names:
                self.classes[n] += 1

    def sample(self, s: Any) -> None:
        if not self.frozen and len(self.samples) < self.max_samples:
            self.samples.append(s)

    def known(self, fid: str) -> None:
        self.known_hits[fid] += 1

    def export(self) -> Dict[str, Any]:
        return {
            "evaluations": self.evaluations,
            "nontrivial": list(self.nontrivial),
            "classes": dict(self.classes),
            "samples": self.samples,
            "violations": self.violations,
            "known_hits": dict(self.known_hits),
            "rejected_by_frontend": self.rejected_by_frontend,
            "frontend_attempts": self.frontend_attempts,
            "extra": self.extra,
        }


class Ctx:
    def __init__(self, pid: str, tier: str, seed: int, shard: int, nshards: int, known: Dict[str, Any]):
        self.pid = pid
        self.tier = tier
        self.base_seed = seed
        self.shard = shard
        self.nshards = nshards
        self.known = known  # finding id -> record (only status == "known")
        self.seed = int.from_bytes(
            hashlib.sha256(f"{seed}:{pid}:{tier}:{shard}".encode()).digest()[:8], "big"
        )
        self.rec = Recorder()

    def n(self, quick: int, thorough: int) -> int:
        """Per-shard case count from a whole-run budget."""
        total = quick if self.tier == "quick" else thorough
        # VERIF_BUDGET_SCALE is used only by the mutant-screening tools (tools/mutant_sweep.py)
        # to run a cheaper first pass; registered commands never set it.
        total = max(1, int(total * float(os.environ.get("VERIF_BUDGET_SCALE", "1") or "1")))
        return max(1, (total + self.nshards - 1) // self.nshards)

    def pick(self, quick: Any, thorough: Any) -> Any:
        return quick if self.tier == "quick" else thorough

    def sub_seed(self, tag: str) -> int:
        return int.from_bytes(hashlib.sha256(f"{self.seed}:{tag}".encode()).digest()[:8], "big")


def hyp_run(ctx: Ctx, strategy: Any, body: Callable[[Any], None], max_examples: int, tag: str = "",
            stateful_machine: Any = None, step_count: int = 30, shrink_cap: Optional[int] = None) -> None:
    """Run `body` over `strategy` under Hypothesis with the shard's seed.

    `body` raises Violation for a property failure.  The minimal (shrunk) failing case is
    appended to ctx.rec.violations.  Any other exception is a harness error.
    """
    import hypothesis
    from hypothesis import HealthCheck, Phase, given, seed, settings

    rec = ctx.rec
    phases = [Phase.generate, Phase.shrink]
    sett = settings(
        max_examples=max_examples,
        database=None,
        deadline=None,
        derandomize=False,
        report_multiple_bugs=False,
        suppress_health_check=list(HealthCheck),
        phases=phases,
        print_blob=False,
        stateful_step_count=step_count,
    )
    s = ctx.sub_seed(tag)
    # Shrinking is capped by a step counter (not time): after `cap` executions that follow the
    # first failure the body stops checking, hypothesis' final replay then reports Flaky and
    # the smallest failing case seen so far (the shrinker only ever tries smaller candidates)
    # is reported instead.
    cap = int(os.environ.get("VERIF_SHRINK_CAP", "250" if ctx.tier == "quick" else "2500"))
    if shrink_cap is not None:
        cap = min(cap, shrink_cap)
    state = {"last": None, "after": 0}
    try:
        if stateful_machine is not None:
            from hypothesis.stateful import run_state_machine_as_test

            run_state_machine_as_test(seed(s)(stateful_machine), settings=sett)
        else:

            @seed(s)
            @sett
            @given(strategy)
            def _t(x: Any) -> None:
                if state["last"] is not None:
                    state["after"] += 1
                    if state["after"] > cap:
                        return
                try:
                    body(x)
                except Violation as v:
                    rec.frozen = True
                    state["last"] = v
                    raise

            _t()
    except Violation as v:
        rec.violations.append({"message": v.message, "case": v.case, "seed": ctx.base_seed, "shard": ctx.shard})
    except hypothesis.errors.Flaky as e:  # includes FlakyFailure
        if state["last"] is not None and state["after"] > cap:
            v = state["last"]
            rec.violations.append({"message": v.message + " [shrink capped]", "case": v.case,
                                   "seed": ctx.base_seed, "shard": ctx.shard})
        else:
            # a flaky outcome may wrap a Violation: report as inconclusive, never as violation
            raise HarnessError(f"flaky outcome under hypothesis: {e!r}")
    except HarnessError:
        raise
    except Exception as e:
        # e.g. an internal error of the shrinker: a failing case had already been seen; report it as it is
        if state["last"] is not None:
            v = state["last"]
            rec.violations.append({"message": v.message + f" [shrinking aborted: {type(e).__name__}]", "case": v.case,
                                   "seed": ctx.base_seed, "shard": ctx.shard})
        else:
            raise
    finally:
        rec.frozen = False


def _run_shard(args: Any) -> Dict[str, Any]:
    pid, tier, seed, shard, nshards, known = args
    os.environ.setdefault("HYPOTHESIS_STORAGE_DIRECTORY", os.path.join("/tmp", f"verif-hyp-{os.getpid()}"))
    mod = importlib.import_module(f"props.{pid.lower()}")
    ctx = Ctx(pid, tier, seed, shard, nshards, known)
    try:
        mod.run_shard(ctx)
        out = ctx.rec.export()
        out["error"] = None
    except HarnessError as e:
        out = ctx.rec.export()
        out["error"] = f"HarnessError: {e}"
    except Exception:
        out = ctx.rec.export()
        out["error"] = traceback.format_exc()
    return out


def load_known(pid: str) -> Dict[str, Any]:
    path = os.path.join(VERIF, "known_findings.json")
    if not os.path.exists(path):
        return {}
    data = json.load(open(path))
    return {f["id"]: f for f in data.get("findings", []) if f.get("property") == pid and f.get("status") == "known"}


def write_replay(pid: str, v: Dict[str, Any]) -> str:
    d = os.path.join(VERIF, "replays", pid)
    os.makedirs(d, exist_ok=True)
    body = {"property": pid, **v}
    if sys.flags.optimize and isinstance(body.get("case"), dict):
        body["case"] = dict(body["case"], python_optimize=int(sys.flags.optimize))
    h = sha(body["case"])[:16]
    path = os.path.join(d, f"{h}.json")
    with open(path, "w") as f:
        json.dump(body, f, indent=1, default=repr)
    return path


def write_evidence(pid: str, tier: str, seed: int, level: str, coverage: Dict[str, Any],
                   assumptions: List[str], wall: float, violations: int) -> None:
    if os.environ.get("VERIF_NO_EVIDENCE"):
        return  # scratch-tree experiments must not overwrite evidence produced against /repo
    os.makedirs(os.path.join(VERIF, "evidence"), exist_ok=True)
    ev = {
        "property_id": pid,
        "tier": tier,
        "seed": seed,
        "level": level,
        "coverage": coverage,
        "assumptions": assumptions,
        "wall_s": round(wall, 2),
        "violations": violations,
    }
    with open(os.path.join(VERIF, "evidence", f"{pid}.json"), "w") as f:
        json.dump(ev, f, indent=1, default=repr)


def main(argv: Optional[List[str]] = None) -> int:
    ap = argparse.ArgumentParser()
    ap.add_argument("pid")
    ap.add_argument("tier", nargs="?", default=os.environ.get("VERIF_TIER", "quick"))
    ap.add_argument("--replay")
    ap.add_argument("--shards", type=int, default=int(os.environ.get("VERIF_SHARDS", "16")))
    ap.add_argument("--seed", type=int, default=None)
    a = ap.parse_args(argv)
    pid = a.pid.upper()
    tier = a.tier
    if tier not in ("quick", "thorough"):
        print(f"unknown tier {tier}", file=sys.stderr)
        return 2
    try:
        seed = a.seed if a.seed is not None else int(os.environ.get("VERIF_SEED", "1") or "1")
    except ValueError:
        seed = 1
    sys.path.insert(0, VERIF)
    try:
        mod = importlib.import_module(f"props.{pid.lower()}")
    except Exception:
        traceback.print_exc()
        return 2

    if a.replay:
        try:
            body = json.load(open(a.replay))
            if isinstance(body.get("case"), dict) and body["case"].get("python_optimize") and not sys.flags.optimize:
                # the case was found by the `python -O` child run: replay it the same way
                import subprocess

                return subprocess.call([sys.executable, "-O", "-m", "vlib.runner", pid, tier, "--replay", a.replay])
            msg = mod.replay(body["case"])
        except Exception:
            traceback.print_exc()
            return 2
        if msg:
            print(f"replay: {msg}")
            print(f"VIOLATION property={pid} replay={a.replay}")
            return 1
        print(f"replay: property {pid} holds on {a.replay}")
        return 0

    t0 = time.time()
    known = load_known(pid)
    # -- preflight: oracle self tests, tool presence
    try:
        if hasattr(mod, "preflight"):
            mod.preflight()
    except HarnessError as e:
        print(f"HARNESS-ERROR property={pid}: {e}")
        return 2
    except Exception:
        traceback.print_exc()
        print(f"HARNESS-ERROR property={pid}: preflight crashed")
        return 2

    viol: List[Dict[str, Any]] = []
    known_lines: List[str] = []
    # -- canaries for recorded known findings + regression replays
    try:
        if hasattr(mod, "canaries"):
            for fid, rec in known.items():
                still = mod.canaries(fid, rec)
                if still:
                    known_lines.append(f"KNOWN-FINDING: property={pid} {rec.get('what', fid)}")
        regdir = os.path.join(VERIF, "regress", pid)
        n_reg = 0
        if os.path.isdir(regdir) and hasattr(mod, "replay"):
            for fn in sorted(os.listdir(regdir)):
                if fn.endswith(".json"):
                    body = json.load(open(os.path.join(regdir, fn)))
                    n_reg += 1
                    msg = mod.replay(body["case"])
                    if msg:
                        viol.append({"message": f"regression {fn}: {msg}", "case": body["case"], "seed": seed, "shard": -1})
    except HarnessError as e:
        print(f"HARNESS-ERROR property={pid}: {e}")
        return 2
    except Exception:
        traceback.print_exc()
        print(f"HARNESS-ERROR property={pid}: canary/regression stage crashed")
        return 2

    nshards = max(1, a.shards)
    if hasattr(mod, "SHARDS"):
        nshards = mod.SHARDS(tier) if callable(mod.SHARDS) else int(mod.SHARDS)
    jobs = [(pid, tier, seed, i, nshards, known) for i in range(nshards)]
    results: List[Dict[str, Any]] = []
    if nshards == 1:
        results = [_run_shard(jobs[0])]
    else:
        # watchdog: a shard that never returns (e.g. a non-terminating parse) makes the run inconclusive,
        # never a violation
        limit = float(os.environ.get("VERIF_WATCHDOG_S", "2400" if tier == "quick" else "21600"))
        ex = ProcessPoolExecutor(max_workers=min(nshards, os.cpu_count() or 4))
        futs = [ex.submit(_run_shard, j) for j in jobs]
        done, pending = concurrent.futures.wait(futs, timeout=limit)
        if pending:
            for proc in list(getattr(ex, "_processes", {}).values()):
                try:
                    proc.kill()
                except Exception:
                    pass
            ex.shutdown(wait=False, cancel_futures=True)
            print(f"HARNESS-ERROR property={pid}: {len(pending)} shard(s) did not finish within {limit:.0f} s (inconclusive)")
            return 2
        results = [f.result() for f in futs]
        ex.shutdown(wait=True)

    # -- configuration axis: the same search, smaller, in an interpreter started with -O (assert statements and
    #    __debug__ blocks are stripped; a codec must not depend on them)
    child_out = ""
    child_rc = 0
    if getattr(mod, "ALSO_UNDER_O", False) and not os.environ.get("VERIF_CHILD") and not sys.flags.optimize:
        import subprocess

        env = dict(os.environ, VERIF_CHILD="1", VERIF_NO_EVIDENCE="1",
                   VERIF_BUDGET_SCALE=str(getattr(mod, "UNDER_O_SCALE", 0.06 if tier == "quick" else 0.015)))
        try:
            cp = subprocess.run([sys.executable, "-O", "-m", "vlib.runner", pid, tier, "--shards", "2", "--seed", str(seed)],
                                env=env, stdout=subprocess.PIPE, stderr=subprocess.STDOUT, text=True,
                                timeout=float(os.environ.get("VERIF_WATCHDOG_S", "2400")))
            child_out, child_rc = cp.stdout, cp.returncode
        except subprocess.TimeoutExpired:
            child_out, child_rc = "python -O child run timed out", 2

    errors = [r["error"] for r in results if r["error"]]
    if child_rc == 2:
        errors.append("python -O child run: " + child_out[-600:])
    agg_classes: collections.Counter = collections.Counter()
    nontrivial: set = set()
    evaluations = 0
    samples: List[Any] = []
    known_hits: collections.Counter = collections.Counter()
    rejected = attempts = 0
    extra: Dict[str, Any] = {}
    for r in results:
        evaluations += r["evaluations"]
        nontrivial.update(r["nontrivial"])
        agg_classes.update(r["classes"])
        known_hits.update(r["known_hits"])
        rejected += r["rejected_by_frontend"]
        attempts += r["frontend_attempts"]
        viol.extend(r["violations"])
        for k, v in r["extra"].items():
            if isinstance(v, (int, float)) and not isinstance(v, bool):
                extra[k] = extra.get(k, 0) + v
            else:
                extra[k] = v
    for r in results:
        for s in r["samples"]:
            if len(samples) < 6:
                samples.append(s)

    # de-duplicate violations by case
    keyf = getattr(mod, "dedup_key", None)
    best: Dict[str, Dict[str, Any]] = {}
    for v in viol:
        h = str(keyf(v["case"])) if keyf else sha(v["case"])
        if h not in best or len(json.dumps(v["case"], default=repr)) < len(json.dumps(best[h]["case"], default=repr)):
            best[h] = v
    viol = list(best.values())

    # -- floors
    floor_fail = []
    floors = getattr(mod, "FLOORS", {})
    screening = os.environ.get("VERIF_BUDGET_SCALE", "1") not in ("", "1")  # tools/mutant_sweep.py only
    if not errors and not viol and not screening:
        for cname, frac in floors.items():
            denom_name = None
            if isinstance(frac, tuple):
                frac, denom_name = frac
            denom = agg_classes.get(denom_name, 0) if denom_name else evaluations
            got = agg_classes.get(cname, 0)
            if denom == 0 or got < frac * denom or got == 0:
                floor_fail.append(f"class '{cname}' {got}/{denom} below floor {frac}")
        if attempts and rejected > 0.05 * attempts and not getattr(mod, "OWNS_PARSING", False):
            floor_fail.append(f"front end rejected {rejected}/{attempts} generated schemas (>5%)")

    wall = time.time() - t0
    coverage = {
        "evaluations": evaluations,
        "distinct_nontrivial": len(nontrivial),
        "rule": getattr(mod, "RULE", ""),
        "samples": samples,
        "classes": dict(sorted(agg_classes.items())),
        "class_floors": {k: (v[0] if isinstance(v, tuple) else v) for k, v in floors.items()},
        "known_finding_hits": dict(known_hits),
        "rejected_by_frontend": rejected,
        "frontend_attempts": attempts,
        "shards": nshards,
        "regression_replays": n_reg,
        **extra,
    }
    if getattr(mod, "ALSO_UNDER_O", False) and child_out:
        import re as _re

        m_ = _re.search(r"evaluations=(\d+)", child_out)
        coverage["python_O_child_run"] = {"exit": child_rc, "evaluations": int(m_.group(1)) if m_ else None}
    if getattr(mod, "EXHAUSTIVE", None):
        coverage["exhaustive"] = bool(mod.EXHAUSTIVE(tier)) if callable(mod.EXHAUSTIVE) else bool(mod.EXHAUSTIVE)
    write_evidence(pid, tier, seed, getattr(mod, "LEVEL", "exploration"), coverage,
                   getattr(mod, "ASSUMPTIONS", []), wall, len(viol))

    for line in known_lines:
        print(line)
    print(
        f"{pid} {tier} seed={seed}: evaluations={evaluations} distinct_nontrivial={len(nontrivial)} "
        f"known_hits={sum(known_hits.values())} rejected_by_frontend={rejected}/{attempts} wall={wall:.1f}s"
    )
    if child_rc == 1:
        print("  under `python -O`:")
        for line in child_out.splitlines():
            if line.startswith("  ") or line.startswith("VIOLATION property="):
                print(line)
    if viol:
        for v in viol:
            path = write_replay(pid, v)
            print(f"  {v['message'][:600]}")
            print(f"VIOLATION property={pid} replay={path}")
        return 1
    if child_rc == 1 and "VIOLATION property=" in child_out:
        return 1
    if errors:
        for e in errors[:3]:
            print(e, file=sys.stderr)
        print(f"HARNESS-ERROR property={pid}: {len(errors)} shard(s) failed")
        return 2
    if floor_fail:
        for f in floor_fail:
            print(f"HARNESS-ERROR property={pid}: {f}")
        return 2
    if evaluations == 0 or len(nontrivial) < 2:
        print(f"HARNESS-ERROR property={pid}: nothing non-trivial was explored")
        return 2
    return 0


if __name__ == "__main__":
    sys.exit(main())
