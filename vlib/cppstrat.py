"""Strategies for programs given to the C++ generator (C03, C13, C15e, C18)."""

from __future__ import annotations

from typing import Any, Dict, List, Optional, Tuple

from hypothesis import strategies as st

from . import canstrat as CS
from . import model as M
from . import reflayout
from . import strategies as S

CPP_RESERVED_FIELDS = {"data", "buffer", "endianess", "j", "s", "ss", "p", "prefix", "rhs", "begin", "end", "json", "name",
                       "type", "size", "value", "std", "fcp", "string", "vector", "none", "some"}
cpp_field = CS.can_field.filter(lambda x: x not in CPP_RESERVED_FIELDS)
cpp_type = CS.can_type.filter(
    lambda x: x not in ("Buffer", "Float", "Double", "String", "Array", "Optional", "Unsigned", "Signed", "Can", "Type",
                        "Struct", "Enum", "Impl", "Rpc", "Service", "Endianess", "Size")
    and not x.endswith("Type") and not x.endswith("Input") and not x.endswith("Output")
)


def cpp_schema_cfg(tier: str, n_structs: Tuple[int, int], dup_ids: bool = True) -> S.SchemaCfg:
    return S.SchemaCfg(
        types=S.TypeCfg(depth=2 if tier == "quick" else 3, max_arr=3),
        min_enums=1, max_enums=3, min_structs=n_structs[0], max_structs=n_structs[1], min_fields=1, max_fields=5,
        enum_max_bits=8, type_names=cpp_type, field_names=cpp_field, shuffle_ids=True, dup_ids=dup_ids, wrap16_ids=True,
    )


def _no_opt_opt(t: M.Type) -> bool:
    if isinstance(t, M.Opt) and isinstance(t.t, M.Opt):
        return False
    if isinstance(t, (M.Arr, M.Dyn, M.Opt)):
        return _no_opt_opt(t.t)
    return True


@st.composite
def cpp_program(draw, tier: str, n_structs: Tuple[int, int] = (8, 14), can: bool = False, services: bool = True,
                exclude: Any = None, dup_ids: bool = True, bindings: bool = True) -> M.Schema:
    s = draw(S.data_schema(cpp_schema_cfg(tier, n_structs, dup_ids)))
    for e in s.enums:
        e.items = [(f"{e.name}x{k}", v) for k, (_n, v) in enumerate(e.items)]
    # JSON cannot express Some(None): flatten Optional[Optional[T]]
    for st_ in s.structs:
        for f in st_.fields:
            while not _no_opt_opt(f.type):
                f.type = _flatten(f.type)
            if exclude is not None:
                f.type = exclude(s, f.type)
    # arrays with the same element chain but different lengths (and their nested transposes) in one program
    for st_ in s.structs:
        if draw(st.integers(0, 3)) == 0 and len(st_.fields) <= 4:
            leaf = draw(st.sampled_from([M.U(8), M.I(12), M.U(3), M.F32()]))
            n1, n2 = draw(st.sampled_from([(2, 3), (4, 8), (1, 2), (3, 2)]))
            used = {f.name for f in st_.fields}
            fn = draw(S.unique_names(cpp_field, 2, 2, list(used)))
            top = max(f.fid for f in st_.fields)
            if draw(st.booleans()):
                t1, t2 = M.Arr(leaf, n1), M.Arr(leaf, n2)
            else:
                t1, t2 = M.Arr(M.Arr(leaf, n1), n2), M.Arr(M.Arr(leaf, n2), n1)
            st_.fields.append(M.Field(fn[0], top + 2, t1))
            st_.fields.append(M.Field(fn[1], top + 1, t2))
    # one wide struct (17-22 scalar fields, ids in any order, sometimes one id used twice): sorting 17+ elements
    # takes other code paths than sorting a handful
    if draw(st.integers(0, 2)) == 0:
        names0 = {d.name for d in s.decls}
        wname = draw(cpp_type.filter(lambda x: x not in names0))
        k = draw(st.integers(17, 22))
        fns = draw(S.unique_names(cpp_field, k, k))
        ids = draw(st.permutations(list(range(k)))) if draw(st.booleans()) else list(range(k))
        ids = list(ids)
        if dup_ids and draw(st.booleans()):
            i = draw(st.integers(0, k - 2))
            ids[i + 1] = ids[i]
        wf = [M.Field(fn, fid, draw(st.sampled_from([M.U(12), M.U(16), M.I(5), M.U(1), M.U(8)]))) for fn, fid in zip(fns, ids)]
        s.decls.append(M.Struct(wname, wf))
    names = {d.name for d in s.decls}
    structs = [x.name for x in s.structs]
    if services and draw(st.booleans()):
        for k in range(draw(st.integers(1, 2))):
            nm = draw(cpp_type.filter(lambda x: x not in names))
            names.add(nm)
            n = draw(st.integers(1, 2))
            mn = draw(S.unique_names(cpp_field, n, n))
            s.decls.append(M.Service(nm, k + 1, [M.Method(m, draw(st.sampled_from(structs)), j, draw(st.sampled_from(structs)))
                                                 for j, m in enumerate(mn)]))
    if bindings and draw(st.booleans()):
        # bindings of another protocol for some structs (nested ones included), all collected at the end of the file
        sub = draw(st.lists(st.sampled_from(structs), min_size=1, max_size=min(4, len(structs)), unique=True))
        for k, nm in enumerate(draw(st.permutations(sub))):
            s.decls.append(M.Impl("uart", nm, None, [("id", k)]))
        if draw(st.booleans()):
            # ... or anywhere in the file, also before the struct they bind (a binding names its struct, the
            # front end does not require the struct to be declared first)
            early = [d for d in s.decls if isinstance(d, M.Impl)]
            for im in early:
                s.decls.remove(im)
                s.decls.insert(draw(st.integers(0, len(s.decls))), im)
    if can:
        ids = draw(st.lists(st.integers(0, 2047), min_size=len(structs), max_size=len(structs), unique=True))
        for st_, fid in zip(s.structs, ids):
            try:
                bits = reflayout.wire_width(s, M.StructRef(st_.name))
            except reflayout.NotFixedSize:
                continue
            if bits <= 64:
                fields: List[Tuple[str, Any]] = [("id", fid)]
                if draw(st.integers(0, 4)) != 0:
                    fields.append(("bus", draw(st.from_regex(r"[a-z][a-z0-9]{0,3}", fullmatch=True))))
                s.decls.append(M.Impl("can", st_.name, None, fields))
    return s


def _flatten(t: M.Type) -> M.Type:
    if isinstance(t, M.Opt) and isinstance(t.t, M.Opt):
        return _flatten(t.t)
    if isinstance(t, M.Arr):
        return M.Arr(_flatten(t.t), t.n)
    if isinstance(t, M.Dyn):
        return M.Dyn(_flatten(t.t))
    if isinstance(t, M.Opt):
        return M.Opt(_flatten(t.t))
    return t


def json_value(v: Any) -> Any:
    return v


VCFG = S.ValCfg(finite_floats=True, long_str=60, long_dyn=20, magic_lengths=False, pad_blocks=False)
