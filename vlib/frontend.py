"""Thin access to the code under test (imports resolve to /repo's working tree)."""

from __future__ import annotations

from typing import Any, Optional, Tuple

from . import model as M
from . import printer


def parse_text(text: str) -> Any:
    """-> Result from the real front end (fresh Logger each time)."""
    from fcp.error import Logger
    from fcp.parser import get_fcp_from_string

    return get_fcp_from_string(text, Logger({}))


def parse_schema(s: M.Schema) -> Tuple[Optional[Any], str, Optional[str]]:
    """-> (FcpV2 | None, text, error string | None).  Exceptions are reported as errors."""
    text = printer.to_text(s)
    try:
        r = parse_text(text)
    except Exception as e:  # the front end is not under test here
        return None, text, f"exception {type(e).__name__}: {e}"
    if r.is_err():
        return None, text, f"Err: {r.err()!r}"
    return r.unwrap(), text, None


def has_modules(s: M.Schema) -> bool:
    return any(isinstance(d, M.Mod) for d in s.decls)


def parse_schema_files(s: M.Schema, directory: str, root_name: str = "schema.fcp") -> Tuple[Optional[Any], str, Optional[str]]:
    """Like parse_schema, but materialises module imports as real files below `directory` first."""
    import os

    from fcp.error import Logger
    from fcp.parser import get_fcp

    from . import modules as MO

    files = MO.files_of(s, root_name)
    for rel, text in files.items():
        pth = os.path.join(directory, rel)
        os.makedirs(os.path.dirname(pth), exist_ok=True)
        with open(pth, "w") as f:
            f.write(text)
    root = os.path.join(directory, root_name)
    try:
        r = get_fcp(root, Logger({}))
    except Exception as e:
        return None, root, f"exception {type(e).__name__}: {e}"
    if r.is_err():
        return None, root, f"Err: {r.err()!r}"
    return r.unwrap(), root, None
