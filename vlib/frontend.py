"""Thin access to the code under test (imports resolve to /repo's working tree)."""

from __future__ import annotations

from typing import Any, Optional, Tuple

from . import model as M
from . import printer


def parse_text(text: str) -> Any:
    """-> Result from the real front end (fresh Logger each time)."""
    from fcp.error import Logger
    from fcp.parser import get_fcp_from_string

    return get_fcp_from_string(text, Logger({}))


def parse_schema(s: M.Schema) -> Tuple[Optional[Any], str, Optional[str]]:
    """-> (FcpV2 | None, text, error string | None).  Exceptions are reported as errors."""
    text = printer.to_text(s)
    try:
        r = parse_text(text)
    except Exception as e:  # the front end is not under test here
        return None, text, f"exception {type(e).__name__}: {e}"
    if r.is_err():
        return None, text, f"Err: {r.err()!r}"
    return r.unwrap(), text, None
