"""Generate, build and drive the C++ produced by fcp_cpp for one schema."""

from __future__ import annotations

import json
import os
import subprocess
from typing import Any, Dict, List, Optional, Tuple

from . import cbuild
from .runner import HarnessError, VERIF

HARNESS = os.path.join(VERIF, "vlib", "cpp", "harness.cpp")


def generate_cpp(fcp: Any, out_dir: str) -> Tuple[Optional[Dict[str, str]], Optional[str]]:
    import fcp_cpp

    try:
        res = fcp_cpp.Generator().generate(fcp, {"output": out_dir})
    except Exception as e:
        return None, f"{type(e).__name__}: {e}"
    files = {}
    for r in res:
        files[os.path.relpath(str(r["path"]), out_dir)] = str(r["contents"])
    return files, None


def reflection_bin(fcp: Any) -> bytes:
    from fcp import serde
    from fcp.reflection import get_reflection_schema

    R = get_reflection_schema().unwrap()
    return bytes(serde.encode(R, "Fcp", fcp.reflection()))


def build(bd: cbuild.BuildDir, files: Dict[str, str], asan: bool = False) -> Tuple[Optional[str], str]:
    """Write headers, compile the harness -> (exe | None, compiler log)."""
    for rel, text in files.items():
        bd.write(os.path.join("gen", rel), text)
    extra = ["-fsanitize=address", "-fno-omit-frame-pointer"] if asan else []
    ok, log = cbuild.compile_cpp([HARNESS], [bd.path("gen"), cbuild.THIRD_PARTY], bd.path("harness"), extra)
    return (bd.path("harness") if ok else None), log


def syntax_check_all(bd: cbuild.BuildDir, files: Dict[str, str]) -> Tuple[bool, str]:
    """A second TU that includes every generated header."""
    # the generated headers are used through fcp.h (they are not individually self-contained):
    # include it first, then every other generated header
    first = ["fcp.h", "dynamic.h", "can.h", "can_static_schema.h", "can_dynamic_schema.h", "rpc.h"]
    order = [f for f in first if f in files] + [f for f in sorted(files) if f.endswith(".h") and f not in first]
    inc = "".join(f'#include "{f}"\n' for f in order)
    bd.write("all.cpp", inc + "int main() { return 0; }\n")
    return cbuild.compile_cpp([bd.path("all.cpp")], [bd.path("gen"), cbuild.THIRD_PARTY], None, syntax_only=True)


class Session:
    """One harness process; requests are batched."""

    def __init__(self, exe: str, schema_bin: Optional[str]) -> None:
        self.exe = exe
        self.schema_bin = schema_bin

    def run(self, requests: List[Dict[str, Any]], timeout: int = 300) -> List[Dict[str, Any]]:
        data = "\n".join(json.dumps(r) for r in requests) + "\n"
        cmd = [self.exe] + ([self.schema_bin] if self.schema_bin else [])
        env = dict(os.environ)
        env["ASAN_OPTIONS"] = "detect_leaks=0"
        try:
            p = subprocess.run(cmd, input=data, stdout=subprocess.PIPE, stderr=subprocess.PIPE, text=True, timeout=timeout, env=env)
        except subprocess.TimeoutExpired:
            raise HarnessError("C++ harness timed out (inconclusive)")
        out = [l for l in p.stdout.split("\n") if l.strip()]
        res: List[Dict[str, Any]] = []
        for l in out:
            try:
                res.append(json.loads(l))
            except ValueError:
                res.append({"exc": f"unparsable answer {l[:80]!r}"})
        while len(res) < len(requests):
            res.append({"crash": f"harness died with code {p.returncode}: {p.stderr[-300:]}"})
        return res
