"""Scratch builds of generated C / C++ and line-oriented subprocess drivers."""

from __future__ import annotations

import os
import shutil
import subprocess
import tempfile
from typing import Any, Dict, List, Optional, Tuple

from .runner import HarnessError, VERIF


class BuildDir:
    def __init__(self, prefix: str = "verif-build-") -> None:
        self.dir = tempfile.mkdtemp(prefix=prefix)

    def write(self, rel: str, text: str) -> str:
        p = os.path.join(self.dir, rel)
        os.makedirs(os.path.dirname(p), exist_ok=True)
        with open(p, "w") as f:
            f.write(text)
        return p

    def path(self, rel: str) -> str:
        return os.path.join(self.dir, rel)

    def close(self) -> None:
        shutil.rmtree(self.dir, ignore_errors=True)

    def __enter__(self) -> "BuildDir":
        return self

    def __exit__(self, *a: Any) -> None:
        self.close()


def have(tool: str) -> bool:
    return shutil.which(tool) is not None


def compile_c(sources: List[str], include: List[str], out: str, extra: Optional[List[str]] = None,
              timeout: int = 120) -> Tuple[bool, str]:
    if not have("gcc"):
        raise HarnessError("gcc not found")
    cmd = ["gcc", "-std=gnu11", "-O0", "-w"] + [f"-I{i}" for i in include] + (extra or []) + sources + ["-o", out, "-lm"]
    try:
        p = subprocess.run(cmd, stdout=subprocess.PIPE, stderr=subprocess.STDOUT, text=True, timeout=timeout)
    except subprocess.TimeoutExpired:
        raise HarnessError("gcc timed out (inconclusive)")
    return p.returncode == 0, p.stdout


def compile_cpp(sources: List[str], include: List[str], out: Optional[str], extra: Optional[List[str]] = None,
                syntax_only: bool = False, timeout: int = 600) -> Tuple[bool, str]:
    if not have("g++"):
        raise HarnessError("g++ not found")
    cmd = ["g++", "-std=c++17", "-O0", "-w"] + [f"-I{i}" for i in include] + (extra or [])
    if syntax_only:
        cmd += ["-fsyntax-only"] + sources
    else:
        cmd += sources + ["-o", out]
    try:
        p = subprocess.run(cmd, stdout=subprocess.PIPE, stderr=subprocess.STDOUT, text=True, timeout=timeout)
    except subprocess.TimeoutExpired:
        raise HarnessError("g++ timed out (inconclusive)")
    return p.returncode == 0, p.stdout


def run_lines(exe: str, lines: List[str], timeout: int = 120) -> Tuple[int, List[str], str]:
    """Feed lines on stdin; -> (return code, stdout lines, stderr tail)."""
    try:
        p = subprocess.run([exe], input="\n".join(lines) + "\n", stdout=subprocess.PIPE, stderr=subprocess.PIPE,
                           text=True, timeout=timeout)
    except subprocess.TimeoutExpired:
        raise HarnessError(f"{os.path.basename(exe)} timed out (inconclusive)")
    return p.returncode, p.stdout.split("\n"), p.stderr[-2000:]


THIRD_PARTY = os.path.join(VERIF, "third_party")
