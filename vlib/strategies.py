"""Hypothesis strategies over vlib.model.  Well-formed schemas are *constructed*
(declare-before-use, unique names) rather than filtered."""

from __future__ import annotations

import re
import struct
from dataclasses import dataclass, field
from typing import Any, Dict, List, Optional, Sequence, Tuple

from hypothesis import strategies as st

from . import model as M

KEYWORDS = {
    "version", "struct", "enum", "impl", "for", "as", "signal", "service", "method",
    "returns", "device", "mod", "str", "Optional", "f32", "f64", "meta",
}
_BUILTIN_PREFIX = re.compile(r"^(u\d|i\d|f32|f64|str)")

# names that C / C++ / the generated code reserve; used by the back-end-safe pools
C_RESERVED = {
    "auto", "break", "case", "char", "const", "continue", "default", "do", "double", "else",
    "enum", "extern", "float", "for", "goto", "if", "inline", "int", "long", "register",
    "restrict", "return", "short", "signed", "sizeof", "static", "struct", "switch",
    "typedef", "union", "unsigned", "void", "volatile", "while", "bool", "true", "false",
    "class", "new", "delete", "this", "template", "typename", "namespace", "using", "public",
    "private", "protected", "virtual", "operator", "friend", "try", "catch", "throw", "and",
    "or", "not", "xor", "asm", "export", "mutable", "explicit", "nullptr", "main", "linux",
    "unix", "data", "id", "dlc", "msg", "frame", "word", "ptr", "message", "time", "dev",
    "json", "buffer", "endianess", "size", "type", "name", "value", "j", "s", "ss", "p",
    "prefix", "rhs", "begin", "end", "global", "fcp", "can", "std", "near", "far",
}


def is_tricky(name: str) -> bool:
    return bool(_BUILTIN_PREFIX.match(name))


def _ok_plain(name: str) -> bool:
    return name not in KEYWORDS and not is_tricky(name)


# realistic field names that happen to be attribute names of Python's dict / list / str / object
PYTHONIC_NAMES = ["values", "items", "keys", "get", "pop", "copy", "update", "clear", "count", "index", "sort", "append",
                  "format", "join", "split", "real", "imag", "name", "size", "data", "len", "id", "type_", "class_",
                  "self", "none", "true", "false", "lambda_", "fields", "value", "key", "default_", "setdefault", "fromkeys"]
lower_ident = st.one_of(
    st.from_regex(r"[a-z][a-z0-9_]{0,7}", fullmatch=True),
    st.from_regex(r"[a-z][a-z0-9_]{0,7}", fullmatch=True),
    st.from_regex(r"[a-z][a-z0-9_]{0,7}", fullmatch=True),
    st.sampled_from(PYTHONIC_NAMES),
).filter(_ok_plain)
pascal_ident = st.from_regex(r"[A-Z][A-Za-z0-9]{0,7}", fullmatch=True).filter(_ok_plain)
any_ident = st.from_regex(r"[A-Za-z_][A-Za-z0-9_]{0,8}", fullmatch=True).filter(_ok_plain)

TRICKY_TYPE_NAMES = [
    "u8x", "i2c", "i3x", "u16_t", "u1a", "i64b", "f32vec", "f64x", "strx", "str_", "string",
    "u8_", "i2", "u", "i", "f", "u_8", "f3", "f321", "Optionalx", "u99x", "i07",
]
# `i2`/`u8` style names are builtins themselves and are not usable as user types; they are
# filtered where the pool is used for declarations.
_BUILTIN_EXACT = re.compile(r"^(u\d\d?|i\d\d?|f32|f64|str)$")
TRICKY_DECL_NAMES = [n for n in TRICKY_TYPE_NAMES if not _BUILTIN_EXACT.match(n)]

BOUNDARY_WIDTHS = [1, 2, 3, 7, 8, 9, 15, 16, 17, 31, 32, 33, 63, 64]
widths = st.one_of(st.integers(1, 64), st.sampled_from(BOUNDARY_WIDTHS))


def unique_names(base: st.SearchStrategy, n_min: int, n_max: int, exclude: Sequence[str] = ()) -> st.SearchStrategy:
    ex = set(exclude)
    return st.lists(base.filter(lambda x: x not in ex), min_size=n_min, max_size=n_max, unique=True)


# ----------------------------------------------------------------------------- enums
@st.composite
def enum_decl(draw, name: str, max_bits: int = 31, item_names: Optional[st.SearchStrategy] = None,
              max_items: int = 6) -> M.Enum:
    item_names = item_names if item_names is not None else pascal_ident
    n = draw(st.integers(1, max_items))
    names = draw(unique_names(item_names, n, n))
    # small widths (and the degenerate enum whose only value is 0) are as interesting as wide ones
    bits = draw(st.sampled_from([b for b in (1, 1, 2, 3, 8) if b <= max_bits]) | st.integers(1, max_bits))
    hi = (1 << bits) - 1
    lo = (1 << (bits - 1)) if bits > 1 else 0
    top = draw(st.sampled_from([hi, lo]) | st.integers(lo, hi))
    if n == 1:
        vals = [top]
    else:
        pool_hi = max(top - 1, 0)
        others = draw(
            st.lists(st.integers(0, pool_hi), min_size=n - 1, max_size=n - 1, unique=True)
            if pool_hi + 1 >= n - 1
            else st.just(list(range(pool_hi + 1)))
        )
        others = [v for v in others if v != top]
        vals = draw(st.permutations([top] + others))
        names = names[: len(vals)]
    return M.Enum(name, list(zip(names, vals)))


# ----------------------------------------------------------------------------- types
@dataclass
class TypeCfg:
    depth: int = 3
    ints: bool = True
    floats: bool = True
    strings: bool = True
    arrays: bool = True
    dyn: bool = True
    opt: bool = True
    max_arr: int = 4
    big_arr: Sequence[int] = ()  # extra array sizes drawn now and then (e.g. 10..13: two-digit element indices)
    min_width: int = 1
    max_width: int = 64


def leaf_types(cfg: TypeCfg, enums: Sequence[str], structs: Sequence[str]) -> st.SearchStrategy:
    opts = []
    if cfg.ints:
        w = st.one_of(
            st.integers(cfg.min_width, cfg.max_width),
            st.sampled_from([x for x in BOUNDARY_WIDTHS if cfg.min_width <= x <= cfg.max_width]),
        )
        opts += [w.map(M.U), w.map(M.I)]
        if cfg.min_width <= 9:
            # zero-padded spellings the grammar accepts ("u08", "i09"): same type, different text
            pad = st.integers(max(cfg.min_width, 1), min(9, cfg.max_width))
            opts.append(st.one_of(w.map(M.U), w.map(M.I), w.map(M.U), w.map(M.I), w.map(M.U), w.map(M.I),
                                  pad.map(lambda n: M.U(n, f"u0{n}")), pad.map(lambda n: M.I(n, f"i0{n}"))))
    if cfg.floats:
        opts += [st.just(M.F32()), st.just(M.F64())]
    if cfg.strings:
        opts.append(st.just(M.Str()))
    if enums:
        opts.append(st.sampled_from(list(enums)).map(M.EnumRef))
        opts.append(st.sampled_from(list(enums)).map(M.EnumRef))
    if structs:
        opts.append(st.sampled_from(list(structs)).map(M.StructRef))
    return st.one_of(*opts)


def types(cfg: TypeCfg, enums: Sequence[str], structs: Sequence[str]) -> st.SearchStrategy:
    leaf = leaf_types(cfg, enums, structs)

    def extend(inner: st.SearchStrategy) -> st.SearchStrategy:
        opts = []
        if cfg.arrays:
            sizes = st.integers(1, cfg.max_arr)
            if cfg.big_arr:
                sizes = st.one_of(sizes, sizes, sizes, sizes, st.sampled_from(list(cfg.big_arr)))
            opts.append(st.builds(M.Arr, inner, sizes))
        if cfg.dyn:
            opts.append(inner.map(M.Dyn))
        if cfg.opt:
            opts.append(inner.map(M.Opt))
        return st.one_of(*opts) if opts else inner

    if cfg.depth <= 0 or not (cfg.arrays or cfg.dyn or cfg.opt):
        return leaf
    # explicit depth control: pick a depth, then wrap
    @st.composite
    def build(draw):
        d = draw(st.sampled_from([0, 0, 0, 1, 1, 2, 3, 4, 5][: 3 + 2 * min(cfg.depth, 3) + max(0, cfg.depth - 3)]))
        d = min(d, cfg.depth)
        t = draw(leaf)
        for _ in range(d):
            t = draw(extend(st.just(t)))
        return t

    return build()


# --------------------------------------------------------------------------- schemas
@dataclass
class SchemaCfg:
    types: TypeCfg = field(default_factory=TypeCfg)
    min_enums: int = 0
    max_enums: int = 3
    min_structs: int = 1
    max_structs: int = 5
    min_fields: int = 1
    max_fields: int = 6
    enum_max_bits: int = 31
    max_fid: int = 40
    shuffle_ids: bool = True
    dup_ids: bool = False  # occasionally two fields of a struct share an id (stable order expected everywhere)
    self_named_field: bool = False  # occasionally a field is spelled exactly like its struct (separate namespaces)
    wrap16_ids: bool = False  # occasionally two field ids are congruent modulo 65536 (ids are 32-bit)
    type_names: Optional[st.SearchStrategy] = None
    field_names: Optional[st.SearchStrategy] = None
    enum_item_names: Optional[st.SearchStrategy] = None
    units: bool = False
    ranges: bool = False


@st.composite
def field_ids(draw, n: int, max_fid: int, shuffle: bool, dup: bool = False) -> List[int]:
    if not shuffle or n == 1:
        if draw(st.booleans()):
            return list(range(n))
    ids = draw(st.lists(st.integers(0, max(max_fid, n)), min_size=n, max_size=n, unique=True))
    if not shuffle:
        ids = sorted(ids)
    if dup and n >= 2 and draw(st.integers(0, 7)) == 0:
        # a copy/paste slip: two fields carry the same id (nothing rejects it; ties keep declaration order)
        i, j = draw(st.lists(st.integers(0, n - 1), min_size=2, max_size=2, unique=True))
        ids[j] = ids[i]
    return ids


# incl. characters that Unicode normalisation (NFC/NFKC), case mapping or Latin-1 re-encoding would rewrite: OHM SIGN,
# ANGSTROM SIGN, combining marks after a base letter, a ligature, sharp s, dotted capital I, conjoining Hangul jamo
unit_text = st.text(alphabet="abcdefgCVAmsk/%^2 \u00b0\u00b5\u03a9\u2126\u212b\u0301\u030a\ufb01\u00df\u0130\u1100\u1161",
                    min_size=0, max_size=5)


def _f64_exact(x: float) -> float:
    return float(x)


range_bound = st.one_of(
    st.sampled_from([0.0, 1.0, -1.0, 0.5, 100.0, 1e10, -2.5e-3]),
    st.floats(allow_nan=False, allow_infinity=False, width=64),
)


@st.composite
def struct_decl(draw, name: str, cfg: SchemaCfg, enums: Sequence[str], structs: Sequence[str]) -> M.Struct:
    n = draw(st.integers(cfg.min_fields, cfg.max_fields))
    fnames = draw(unique_names((cfg.field_names if cfg.field_names is not None else lower_ident), n, n))
    ids = draw(field_ids(n, cfg.max_fid, cfg.shuffle_ids, cfg.dup_ids))
    if cfg.wrap16_ids and n >= 2 and draw(st.integers(0, 5)) == 0:
        i, j = draw(st.lists(st.integers(0, n - 1), min_size=2, max_size=2, unique=True))
        cand = ids[i] + 65536 * draw(st.integers(1, 3))
        if cand not in ids:
            ids[j] = cand
    if cfg.self_named_field and draw(st.integers(0, 9)) == 0 and name not in fnames:
        fnames[draw(st.integers(0, n - 1))] = name
    tstrat = types(cfg.types, enums, structs)
    fields = []
    for fname, fid in zip(fnames, ids):
        t = draw(tstrat)
        unit = draw(st.none() | unit_text) if cfg.units else None
        rng = None
        if cfg.ranges and draw(st.integers(0, 3)) == 0:
            rng = (draw(range_bound), draw(range_bound))
        order = draw(st.sampled_from(["ur", "ru"])) if (unit is not None and rng is not None) else "ur"
        fields.append(M.Field(fname, fid, t, unit, rng, order))
    return M.Struct(name, fields)


@st.composite
def data_schema(draw, cfg: Optional[SchemaCfg] = None) -> M.Schema:
    """Enums and structs only (declare-before-use), interleaved."""
    cfg = cfg or SchemaCfg()
    n_e = draw(st.integers(cfg.min_enums, cfg.max_enums))
    n_s = draw(st.integers(cfg.min_structs, cfg.max_structs))
    names = draw(unique_names((cfg.type_names if cfg.type_names is not None else pascal_ident), n_e + n_s, n_e + n_s))
    kinds = draw(st.permutations(["e"] * n_e + ["s"] * n_s))
    decls: List[M.Decl] = []
    enums: List[str] = []
    structs: List[str] = []
    for kind, name in zip(kinds, names):
        if kind == "e":
            decls.append(draw(enum_decl(name, cfg.enum_max_bits, cfg.enum_item_names)))
            enums.append(name)
        else:
            decls.append(draw(struct_decl(name, cfg, enums, structs)))
            structs.append(name)
    return M.Schema(decls)


# ---------------------------------------------------------------------------- values
def _f32_round(x: float) -> float:
    return struct.unpack("<f", struct.pack("<f", x))[0]


F32_SPECIAL = [0.0, -0.0, 1.0, -1.0, 1.5, float("inf"), float("-inf"), float("nan"),
               struct.unpack("<f", struct.pack("<I", 1))[0],  # smallest subnormal
               struct.unpack("<f", struct.pack("<I", 0x7F7FFFFF))[0],  # max finite
               struct.unpack("<f", struct.pack("<I", 0x00800000))[0]]
F64_SPECIAL = [0.0, -0.0, 1.0, -1.0, 1.5, float("inf"), float("-inf"), float("nan"), 5e-324,
               1.7976931348623157e308, 2.2250738585072014e-308, 0.1]


@dataclass
class ValCfg:
    finite_floats: bool = False  # JSON-carried values: no NaN/inf
    max_str: int = 12
    long_str: int = 300
    max_dyn: int = 4
    long_dyn: int = 300
    allow_long: bool = True
    magic_lengths: bool = True  # 255/256/257, 4092..4097, 8188/8192: block-size boundaries
    pad_blocks: bool = True  # stretch one top-level string/byte array so that the encoding is exactly one block
    int_floats: bool = False  # a float field may be given a Python int (10 instead of 10.0), as callers do


MAGIC_LENGTHS = [255, 256, 257, 4091, 4092, 4093, 4095, 4096, 4097, 8188, 8192]
NON_ASCII = ["\u00b0", "\u00b5", "\u03a9", "\u00e9", "\u65e5", "\U0001f600", "\u00ff", "\u0100", "\u2028",
             "\u2126", "\u212b", "\u0301", "\u030a", "\ufb01", "\u00df", "\u0130", "\u1100", "\u1161"]
ascii_chars = st.one_of(st.characters(min_codepoint=0, max_codepoint=127), st.characters(min_codepoint=0, max_codepoint=127),
                        st.characters(min_codepoint=0, max_codepoint=127), st.characters(min_codepoint=0, max_codepoint=127),
                        st.characters(min_codepoint=0, max_codepoint=127), st.characters(min_codepoint=0, max_codepoint=127),
                        st.characters(min_codepoint=0, max_codepoint=127), st.sampled_from(NON_ASCII))
printable_chars = st.characters(min_codepoint=32, max_codepoint=126)


def value_for(s: M.Schema, t: M.Type, cfg: Optional[ValCfg] = None) -> st.SearchStrategy:
    cfg = cfg or ValCfg()
    if isinstance(t, M.U):
        hi = (1 << t.n) - 1
        return st.one_of(st.sampled_from(sorted({0, 1, hi, hi >> 1, (hi >> 1) + 1})), st.integers(0, hi))
    if isinstance(t, M.I):
        lo, hi = -(1 << (t.n - 1)), (1 << (t.n - 1)) - 1
        return st.one_of(st.sampled_from(sorted({lo, -1, 0, hi, max(lo, -2), min(hi, 1)})), st.integers(lo, hi))
    if isinstance(t, (M.F32, M.F64)) and cfg.int_floats:
        base = value_for(s, t, ValCfg(finite_floats=cfg.finite_floats))
        return st.one_of(base, base, base, base, base, st.sampled_from([0, 1, -1, 100, -3, 16777216]))
    if isinstance(t, M.F32):
        sp = [x for x in F32_SPECIAL if not cfg.finite_floats or (x == x and abs(x) != float("inf"))]
        return st.one_of(
            st.sampled_from(sp),
            st.floats(width=32, allow_nan=not cfg.finite_floats, allow_infinity=not cfg.finite_floats),
        )
    if isinstance(t, M.F64):
        sp = [x for x in F64_SPECIAL if not cfg.finite_floats or (x == x and abs(x) != float("inf"))]
        return st.one_of(
            st.sampled_from(sp),
            st.floats(width=64, allow_nan=not cfg.finite_floats, allow_infinity=not cfg.finite_floats),
        )
    if isinstance(t, M.EnumRef):
        return st.sampled_from([v for _, v in s.enum(t.name).items])
    if isinstance(t, M.Str):
        short = st.text(alphabet=ascii_chars, max_size=cfg.max_str)
        if cfg.allow_long:
            long = st.integers(cfg.max_str + 1, cfg.long_str).flatmap(
                lambda n: st.text(alphabet=printable_chars, min_size=n, max_size=n)
            )
            opts = [short] * 8 + [st.just(""), st.just(""), long, long]
            if cfg.magic_lengths:
                # block-size boundaries (with and without the 4-byte prefix): cheap to build, no per-character draw
                opts.append(st.sampled_from(MAGIC_LENGTHS).flatmap(
                    lambda n: st.sampled_from("az09 ~").map(lambda c: (c + "fcp") * (n // 4) + c * (n % 4))))
            return st.one_of(*opts)
        return short
    if isinstance(t, M.StructRef):
        return struct_value(s, t.name, cfg)
    if isinstance(t, M.Arr):
        return st.lists(value_for(s, t.t, cfg), min_size=t.n, max_size=t.n)
    if isinstance(t, M.Dyn):
        inner = value_for(s, t.t, cfg)
        short = st.lists(inner, max_size=cfg.max_dyn)
        if cfg.allow_long and M.type_depth(t.t) == 0 and not isinstance(t.t, (M.StructRef, M.Str)):
            long = st.integers(cfg.max_dyn + 1, cfg.long_dyn).flatmap(
                lambda n: st.lists(inner, min_size=n, max_size=n)
            )
            opts = [short] * 8 + [st.just([]), st.just([]), long, long]
            if cfg.magic_lengths and isinstance(t.t, (M.U, M.I)) and t.t.n <= 8:
                opts.append(st.sampled_from(MAGIC_LENGTHS).flatmap(
                    lambda n: st.tuples(inner, inner).map(lambda ab: [ab[0], ab[1]] * (n // 2) + [ab[0]] * (n % 2))))
            return st.one_of(*opts)
        return st.one_of(short, st.just([]))
    if isinstance(t, M.Opt):
        return st.one_of(st.none(), value_for(s, t.t, cfg), value_for(s, t.t, cfg))
    raise TypeError(t)


def struct_value(s: M.Schema, name: str, cfg: Optional[ValCfg] = None) -> st.SearchStrategy:
    stt = s.struct(name)
    return st.fixed_dictionaries({f.name: value_for(s, f.type, cfg) for f in stt.fields})


# ------------------------------------------------------------------ classification
def type_contains(s: M.Schema, t: M.Type, pred) -> bool:
    if pred(t):
        return True
    if isinstance(t, (M.Arr, M.Dyn, M.Opt)):
        return type_contains(s, t.t, pred)
    if isinstance(t, M.StructRef):
        return any(type_contains(s, f.type, pred) for f in s.struct(t.name).fields)
    return False


def fixed_size_bits(s: M.Schema, t: M.Type) -> Optional[int]:
    """Wire width of a fixed-size type, None when variable-size."""
    if isinstance(t, (M.U, M.I)):
        return t.n
    if isinstance(t, M.F32):
        return 32
    if isinstance(t, M.F64):
        return 64
    if isinstance(t, M.EnumRef):
        return s.enum(t.name).width()
    if isinstance(t, M.Arr):
        x = fixed_size_bits(s, t.t)
        return None if x is None else x * t.n
    if isinstance(t, M.StructRef):
        tot = 0
        for f in s.struct(t.name).fields:
            x = fixed_size_bits(s, f.type)
            if x is None:
                return None
            tot += x
        return tot
    return None


# ------------------------------------------------------------- extension values, impls
# The parser returns the raw text between the quotes, escape sequences included, so a description string may
# contain backslash pairs as long as the text stays a valid ESCAPED_STRING body: every '"' and every '\\' is the
# second half of a pair.
_string_piece = st.one_of(
    st.characters(min_codepoint=32, max_codepoint=126, blacklist_characters='"\\'),
    st.characters(min_codepoint=32, max_codepoint=126, blacklist_characters='"\\'),
    st.characters(min_codepoint=32, max_codepoint=126, blacklist_characters='"\\'),
    st.sampled_from(['\\"', "\\\\", "\\n", "\\t", "'"]),
)
string_body = st.lists(_string_piece, max_size=8).map("".join)

_num_spellings = st.one_of(
    st.integers(-(2**40), 2**40),
    st.sampled_from([0, 1, -1, 255, 2047, -128]),
    st.floats(allow_nan=False, allow_infinity=False, width=64).filter(lambda x: x == x),
    st.sampled_from([
        M.Num("+5", 5), M.Num("-0", 0), M.Num("1.5", 1.5), M.Num("2e3", 2000.0), M.Num("-2.5E-3", -0.0025),
        M.Num("1.", 1.0), M.Num(".5", 0.5), M.Num("007", 7), M.Num("+.5e1", 5.0), M.Num("1e0", 1.0),
    ]),
)


def ext_values(ident_pool: Optional[st.SearchStrategy] = None, max_depth: int = 2) -> st.SearchStrategy:
    ident_pool = ident_pool if ident_pool is not None else any_ident
    leaf = st.one_of(_num_spellings, string_body, ident_pool.map(M.Ident))
    return st.recursive(leaf, lambda inner: st.lists(inner, min_size=1, max_size=3), max_leaves=6)


def leaf_field_names(s: M.Schema, struct_name: str) -> Tuple[List[str], List[str], List[str]]:
    """(top-level field names, nested field names, unrolled element names) of a struct."""
    top = [f.name for f in s.struct(struct_name).fields]
    nested: List[str] = []
    unrolled: List[str] = []

    def walk(st_: M.Struct, is_top: bool) -> None:
        for f in st_.fields:
            if not is_top:
                nested.append(f.name)
            t = f.type
            nm = f.name
            while isinstance(t, M.Arr):
                nm = nm + "_0"
                unrolled.append(nm)
                t = t.t
            if isinstance(t, M.StructRef):
                walk(s.struct(t.name), False)

    walk(s.struct(struct_name), True)
    return top, nested, unrolled


@st.composite
def signal_blocks(draw, s: M.Schema, struct_name: str, max_blocks: int = 3,
                  mux: bool = True, arbitrary_keys: bool = True, big_ok=None) -> List[M.SignalBlock]:
    top, nested, unrolled = leaf_field_names(s, struct_name)
    pool = top * 3 + nested + unrolled + ["nosuchfield", "zz_9"]
    n = draw(st.integers(0, max_blocks))
    names = draw(st.lists(st.sampled_from(pool), min_size=n, max_size=n, unique=True))
    out = []
    for nm in names:
        fields: List[Tuple[str, Any]] = []
        if draw(st.booleans()):
            fields.append(("endianess", draw(st.sampled_from(["big", "little"]))))
        if mux and draw(st.integers(0, 2)) == 0:
            fields.append(("mux_count", draw(st.integers(1, 16))))
            fields.append(("mux_signal", draw(st.sampled_from(top))))
        if arbitrary_keys and draw(st.integers(0, 2)) == 0:
            fields.append((draw(lower_ident.filter(lambda k: k not in ("endianess", "mux_count", "mux_signal"))),
                           draw(ext_values())))
        if not fields:
            fields.append(("scale", draw(st.sampled_from([1, 2, 0.5]))))
        out.append(M.SignalBlock(nm, fields))
    return out


def interleave(draw, n_f: int, n_s: int) -> List[Tuple[str, int]]:
    slots = ["f"] * n_f + ["s"] * n_s
    perm = draw(st.permutations(slots)) if slots else []
    fi = si = 0
    order = []
    for k in perm:
        if k == "f":
            order.append(("f", fi))
            fi += 1
        else:
            order.append(("s", si))
            si += 1
    return order


# ---------------------------------------------------------------- full schemas (C07/C12)
@dataclass
class FullCfg:
    data: SchemaCfg = field(default_factory=lambda: SchemaCfg(units=True, ranges=True, enum_max_bits=31))
    max_impls: int = 4
    max_services: int = 2
    max_devices: int = 2
    free_positions: bool = True  # extras may precede the declarations they mention
    protocols: Sequence[str] = ("can", "uart", "lin", "other")
    ext_keys: Optional[st.SearchStrategy] = None
    u32_ids: bool = True


@st.composite
def ext_field_list(draw, min_size: int, max_size: int, keys: Optional[st.SearchStrategy] = None,
                   exclude: Sequence[str] = ()) -> List[Tuple[str, Any]]:
    keys = keys if keys is not None else lower_ident
    n = draw(st.integers(min_size, max_size))
    ks = draw(unique_names(keys, n, n, exclude))
    return [(k, draw(ext_values())) for k in ks]


@st.composite
def impl_decl(draw, s: M.Schema, cfg: FullCfg, taken: set) -> Optional[M.Impl]:
    structs = [x.name for x in s.structs]
    target = draw(st.sampled_from(structs))
    proto = draw(st.sampled_from(list(cfg.protocols)))
    nm = draw(st.none() | pascal_ident)
    eff = nm or target
    if (eff, proto) in taken:
        return None
    taken.add((eff, proto))
    fields = draw(ext_field_list(0, 4, cfg.ext_keys))
    sbs = draw(signal_blocks(s, target, max_blocks=2))
    if not fields and not sbs:
        fields = [("id", draw(st.integers(0, 2047)))]
    if sbs and draw(st.integers(0, 2)) == 0:
        # an extension field keyed like one of the binding's signal blocks ("id: 291" next to "signal id {...}"):
        # two different things that happen to share a name
        key = draw(st.sampled_from([sb.name for sb in sbs]))
        if all(k != key for k, _v in fields) and key not in KEYWORDS:
            fields = list(fields) + [(key, draw(st.integers(0, 2047)))]
    order = interleave(draw, len(fields), len(sbs))
    return M.Impl(proto, target, nm, fields, sbs, order, explicit_as=draw(st.booleans()))


@st.composite
def service_decl(draw, s: M.Schema, name: str) -> M.Service:
    structs = [x.name for x in s.structs]
    n = draw(st.integers(1, 3))
    mnames = draw(unique_names(any_ident, n, n))
    mids = draw(st.lists(st.integers(0, 2**32 - 1) | st.integers(0, 10), min_size=n, max_size=n, unique=True))
    methods = [M.Method(mn, draw(st.sampled_from(structs)), mid, draw(st.sampled_from(structs)))
               for mn, mid in zip(mnames, mids)]
    return M.Service(name, draw(st.integers(0, 2**32 - 1) | st.integers(0, 10)), methods)


@st.composite
def full_schema(draw, cfg: Optional[FullCfg] = None) -> M.Schema:
    cfg = cfg or FullCfg()
    s = draw(data_schema(cfg.data))
    extras: List[M.Decl] = []
    taken: set = set()
    for _ in range(draw(st.integers(0, cfg.max_impls))):
        im = draw(impl_decl(s, cfg, taken))
        if im is not None:
            extras.append(im)
    type_names = {d.name for d in s.decls}
    n_svc = draw(st.integers(0, cfg.max_services))
    svc_names = draw(unique_names(pascal_ident, n_svc, n_svc, list(type_names)))
    for nm in svc_names:
        extras.append(draw(service_decl(s, nm)))
    n_dev = draw(st.integers(0, cfg.max_devices))
    dev_names = draw(unique_names(lower_ident, n_dev, n_dev))
    for nm in dev_names:
        fields = draw(ext_field_list(0, 3, exclude=("services",)))
        if svc_names and draw(st.booleans()):
            sub = draw(st.lists(st.sampled_from(svc_names), min_size=1, max_size=len(svc_names), unique=True))
            fields.append(("services", [M.Ident(x) for x in sub]))
        if not fields:
            fields = [("id", draw(st.integers(0, 255)))]
        extras.append(M.Device(nm, fields))
    extras = list(draw(st.permutations(extras)))
    decls = list(s.decls)
    for e in extras:
        if cfg.free_positions:
            pos = draw(st.integers(0, len(decls)))
        else:
            # after everything it mentions: simply after all data declarations seen so far
            lo = max((i + 1 for i, d in enumerate(decls) if isinstance(d, (M.Struct, M.Enum))), default=0)
            pos = draw(st.integers(lo, len(decls)))
        decls.insert(pos, e)
    return M.Schema(decls)
