"""Independent, minimal DBC reader (BU_/BO_/SG_/SIG_VALTYPE_/SG_MUL_VAL_) and frame decoder."""

from __future__ import annotations

import re
from dataclasses import dataclass, field
from typing import Any, Dict, List, Optional, Tuple

from .refcodec import bits_f32, bits_f64


@dataclass
class Sig:
    name: str
    start: int
    length: int
    little: bool
    signed: bool
    scale: float
    offset: float
    unit: str
    mux_role: Optional[str]  # None | 'M' | 'm<k>' | 'm<k>M'
    valtype: int = 0  # 0 integer, 1 float32, 2 float64
    mux_signal: Optional[str] = None
    mux_ranges: List[Tuple[int, int]] = field(default_factory=list)

    @property
    def is_multiplexer(self) -> bool:
        return bool(self.mux_role) and self.mux_role.endswith("M")

    @property
    def mux_ids(self) -> Optional[List[int]]:
        if self.mux_ranges:
            out: List[int] = []
            for a, b in self.mux_ranges:
                out += list(range(a, b + 1))
            return out
        if self.mux_role and self.mux_role.startswith("m"):
            return [int(self.mux_role[1:].rstrip("M"))]
        return None


@dataclass
class Msg:
    frame_id: int
    name: str
    length: int
    sender: str
    signals: List[Sig] = field(default_factory=list)

    def sig(self, name: str) -> Sig:
        for s in self.signals:
            if s.name == name:
                return s
        raise KeyError(name)


@dataclass
class Dbc:
    nodes: List[str]
    messages: List[Msg]

    def msg(self, name: str) -> Msg:
        for m in self.messages:
            if m.name == name:
                return m
        raise KeyError(name)


_BO = re.compile(r"^BO_ (\d+) (\w+) *: *(\d+) (\S+)")
_SG = re.compile(
    r'^\s+SG_ (\w+)\s*(M|m\d+M?)?\s*:\s*(\d+)\|(\d+)@([01])([+-])\s*\(([^,]+),([^)]+)\)\s*\[([^|]*)\|([^\]]*)\]\s*"([^"]*)"\s*(.*)$'
)
_VT = re.compile(r"^SIG_VALTYPE_ (\d+) (\w+)\s*:\s*(\d+)\s*;")
_MUL = re.compile(r"^SG_MUL_VAL_ (\d+) (\w+) (\w+) ([^;]*);")
_LONG_SG = re.compile(r'^BA_ "SystemSignalLongSymbol" SG_ (\d+) (\w+) "([^"]*)";')
_LONG_BO = re.compile(r'^BA_ "SystemMessageLongSymbol" BO_ (\d+) "([^"]*)";')


class DbcSyntaxError(Exception):
    pass


def parse(text: str) -> Dbc:
    nodes: List[str] = []
    msgs: List[Msg] = []
    long_sg: List[Tuple[int, str, str]] = []
    long_bo: List[Tuple[int, str]] = []
    cur: Optional[Msg] = None
    for raw in text.split("\n"):
        line = raw.rstrip("\r")
        if line.startswith("BU_:"):
            nodes = line[4:].split()
            continue
        m = _BO.match(line)
        if m:
            cur = Msg(int(m.group(1)), m.group(2), int(m.group(3)), m.group(4))
            msgs.append(cur)
            continue
        if line.lstrip().startswith("SG_ "):
            m = _SG.match(line)
            if not m or cur is None:
                raise DbcSyntaxError(f"cannot read signal line: {line!r}")
            cur.signals.append(
                Sig(m.group(1), int(m.group(3)), int(m.group(4)), m.group(5) == "1", m.group(6) == "-",
                    float(m.group(7)), float(m.group(8)), m.group(11), m.group(2))
            )
            continue
        m = _VT.match(line)
        if m:
            for mm in msgs:
                if mm.frame_id == int(m.group(1)):
                    mm.sig(m.group(2)).valtype = int(m.group(3))
            continue
        m = _MUL.match(line)
        if m:
            for mm in msgs:
                if mm.frame_id == int(m.group(1)):
                    s = mm.sig(m.group(2))
                    s.mux_signal = m.group(3)
                    for part in m.group(4).split(","):
                        a, b = part.strip().split("-")
                        s.mux_ranges.append((int(a), int(b)))
            continue
        m = _LONG_SG.match(line)
        if m:
            long_sg.append((int(m.group(1)), m.group(2), m.group(3)))
            continue
        m = _LONG_BO.match(line)
        if m:
            long_bo.append((int(m.group(1)), m.group(2)))
            continue
        if line.startswith("BO_ ") or line.startswith("SIG_VALTYPE_ ") or line.startswith("SG_MUL_VAL_ "):
            raise DbcSyntaxError(f"cannot read line: {line!r}")
    # names longer than 32 characters are stored shortened, the full name travels in an attribute
    for fid, short, full in long_sg:
        for mm in msgs:
            if mm.frame_id == fid:
                for sg in mm.signals:
                    if sg.name == short:
                        sg.name = full
                    if sg.mux_signal == short:
                        sg.mux_signal = full
    for fid, full in long_bo:
        for mm in msgs:
            if mm.frame_id == fid:
                mm.name = full
    return Dbc(nodes, msgs)


def occupied_bits(s: Sig) -> List[int]:
    """Frame bit indices (byte*8 + bit, LSB-first) occupied by a signal, MSB first for Motorola."""
    if s.little:
        return list(range(s.start, s.start + s.length))
    out = []
    pos = s.start
    for _ in range(s.length):
        out.append(pos)
        pos = pos + 15 if pos % 8 == 0 else pos - 1
    return out


def raw_of(s: Sig, data: bytes) -> int:
    word = int.from_bytes(data, "little")
    if s.little:
        return (word >> s.start) & ((1 << s.length) - 1)
    v = 0
    for pos in occupied_bits(s):
        v = (v << 1) | ((word >> pos) & 1)
    return v


def value_of(s: Sig, data: bytes) -> Any:
    raw = raw_of(s, data)
    if s.valtype == 1:
        return bits_f32(raw)
    if s.valtype == 2:
        return bits_f64(raw)
    if s.signed and raw >> (s.length - 1):
        raw -= 1 << s.length
    return raw


def decode(m: Msg, data: bytes) -> Dict[str, Any]:
    """Raw (unscaled) values of every signal that is present in the frame: a multiplexed signal is present when its
    selector is present and holds one of the signal's multiplexer ids (chains of selectors are followed)."""
    plain_muxers = [s.name for s in m.signals if s.is_multiplexer and s.mux_ids is None]
    by_name = {s.name: s for s in m.signals}
    memo: Dict[str, bool] = {}

    def present(s: Sig, depth: int = 0) -> bool:
        if s.name in memo:
            return memo[s.name]
        ids = s.mux_ids
        if ids is None or depth > len(m.signals):
            memo[s.name] = True
            return True
        sel_name = s.mux_signal or (plain_muxers[0] if plain_muxers else None)
        sel = by_name.get(sel_name) if sel_name else None
        ok = sel is not None and sel.name != s.name and present(sel, depth + 1) and raw_of(sel, data) in ids
        memo[s.name] = ok
        return ok

    return {s.name: value_of(s, data) for s in m.signals if present(s)}
