"""Reference packed CAN layout: a fold over the own schema description.

Fields by ascending id; struct fields recurse with prefix `name::`; arrays (when unrolled)
become name_0 .. name_{n-1} recursively; every scalar leaf gets (name, start, width) with
width = wire width of the leaf type (enum: minimal width).  Also little-endian frame
pack/unpack with byte-reversed placement for big-endian byte-aligned leaves.
"""

from __future__ import annotations

from dataclasses import dataclass
from typing import Any, Dict, List, Optional, Tuple

from . import model as M
from .refcodec import bits_f32, bits_f64, f32_bits, f64_bits


class NotFixedSize(Exception):
    pass


@dataclass
class Leaf:
    name: str  # hierarchical name, '::' separated
    start: int
    width: int
    type: M.Type  # scalar leaf type (or Arr when not unrolled)
    field: str  # name of the (possibly derived) field that produced the leaf
    origin: str  # name of the declared field at the innermost struct level (before _i suffixes)
    unit: Optional[str]
    path: Tuple[Any, ...]  # access path into a value dict: field names and int indices


def wire_width(s: M.Schema, t: M.Type) -> int:
    if isinstance(t, (M.U, M.I)):
        return t.n
    if isinstance(t, M.F32):
        return 32
    if isinstance(t, M.F64):
        return 64
    if isinstance(t, M.EnumRef):
        return s.enum(t.name).width()
    if isinstance(t, M.Arr):
        return t.n * wire_width(s, t.t)
    if isinstance(t, M.StructRef):
        return sum(wire_width(s, f.type) for f in s.struct(t.name).fields)
    raise NotFixedSize(M.type_text(t))


def layout(s: M.Schema, struct_name: str, unroll: bool = True) -> List[Leaf]:
    out: List[Leaf] = []
    pos = 0

    def signal(fname: str, origin: str, t: M.Type, unit: Optional[str], prefix: str, path: Tuple[Any, ...]) -> None:
        nonlocal pos
        if isinstance(t, M.StructRef):
            struct(s.struct(t.name), prefix + fname + "::", path)
            return
        if isinstance(t, M.Arr) and unroll:
            for i in range(t.n):
                signal(f"{fname}_{i}", origin, t.t, unit, prefix, path + (i,))
            return
        if isinstance(t, (M.Str, M.Dyn, M.Opt)):
            raise NotFixedSize(M.type_text(t))
        if isinstance(t, M.Arr) and M.type_contains_struct(t):
            raise NotFixedSize("array of struct without unrolling")
        w = wire_width(s, t)
        out.append(Leaf(prefix + fname, pos, w, t, fname, origin, unit, path))
        pos += w

    def struct(st: M.Struct, prefix: str, path: Tuple[Any, ...]) -> None:
        for f in sorted(st.fields, key=lambda f: f.fid):
            signal(f.name, f.name, f.type, f.unit, prefix, path + (f.name,))

    struct(s.struct(struct_name), "", ())
    return out


def get_path(v: Any, path: Tuple[Any, ...]) -> Any:
    for p in path:
        v = v[p]
    return v


def set_path(v: Any, path: Tuple[Any, ...], x: Any) -> None:
    for p in path[:-1]:
        v = v[p]
    v[path[-1]] = x


def raw_of(s: M.Schema, t: M.Type, x: Any) -> int:
    """Unsigned bit pattern of a scalar leaf value."""
    if isinstance(t, M.U):
        return x & ((1 << t.n) - 1)
    if isinstance(t, M.I):
        return x & ((1 << t.n) - 1)
    if isinstance(t, M.F32):
        return f32_bits(x)
    if isinstance(t, M.F64):
        return f64_bits(x)
    if isinstance(t, M.EnumRef):
        return x
    raise TypeError(t)


def value_of(s: M.Schema, t: M.Type, raw: int) -> Any:
    if isinstance(t, M.U):
        return raw
    if isinstance(t, M.I):
        return raw - (1 << t.n) if raw >> (t.n - 1) else raw
    if isinstance(t, M.F32):
        return bits_f32(raw)
    if isinstance(t, M.F64):
        return bits_f64(raw)
    if isinstance(t, M.EnumRef):
        return raw
    raise TypeError(t)


def _byteswap(raw: int, width: int) -> int:
    return int.from_bytes(raw.to_bytes(width // 8, "little"), "big")


def pack(s: M.Schema, leaves: List[Leaf], v: Dict[str, Any], big: Optional[Dict[str, bool]] = None) -> int:
    """-> the message as an integer (bit i of the result is bit i of the frame, LSB-first).

    `big[leaf.name]` marks leaves stored big-endian (only byte-aligned, byte-multiple)."""
    word = 0
    for lf in leaves:
        raw = raw_of(s, lf.type, get_path(v, lf.path))
        if big and big.get(lf.name):
            raw = _byteswap(raw, lf.width)
        word |= raw << lf.start
    return word


def unpack(s: M.Schema, leaves: List[Leaf], word: int, big: Optional[Dict[str, bool]] = None) -> Dict[str, Any]:
    out: Dict[str, Any] = {}
    for lf in leaves:
        raw = (word >> lf.start) & ((1 << lf.width) - 1)
        if big and big.get(lf.name):
            raw = _byteswap(raw, lf.width)
        out[lf.name] = value_of(s, lf.type, raw)
    return out


def total_bits(leaves: List[Leaf]) -> int:
    return max((lf.start + lf.width for lf in leaves), default=0)
