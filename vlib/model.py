"""Own plain description of an FCP schema (independent of fcp.specs).

Everything the checks generate is first a value of these classes; it reaches the code
under test only as FCP text through vlib.printer and the real front end.
"""

from __future__ import annotations

from dataclasses import dataclass, field
from typing import Any, List, Optional, Tuple, Union


# ----------------------------------------------------------------------------- types
@dataclass(frozen=True)
class U:
    n: int
    # optional source spelling, e.g. "u08" (zero padded); the parser keeps it as the type's name
    spell: Optional[str] = field(default=None, compare=False)


@dataclass(frozen=True)
class I:
    n: int
    spell: Optional[str] = field(default=None, compare=False)


@dataclass(frozen=True)
class F32:
    pass


@dataclass(frozen=True)
class F64:
    pass


@dataclass(frozen=True)
class Str:
    pass


@dataclass(frozen=True)
class EnumRef:
    name: str


@dataclass(frozen=True)
class StructRef:
    name: str


@dataclass(frozen=True)
class Arr:
    t: Any
    n: int


@dataclass(frozen=True)
class Dyn:
    t: Any


@dataclass(frozen=True)
class Opt:
    t: Any


Type = Union[U, I, F32, F64, Str, EnumRef, StructRef, Arr, Dyn, Opt]


def type_depth(t: Type) -> int:
    if isinstance(t, (Arr, Dyn, Opt)):
        return 1 + type_depth(t.t)
    return 0


def type_leaf(t: Type) -> Type:
    while isinstance(t, (Arr, Dyn, Opt)):
        t = t.t
    return t


def type_text(t: Type) -> str:
    if isinstance(t, U):
        return t.spell or f"u{t.n}"
    if isinstance(t, I):
        return t.spell or f"i{t.n}"
    if isinstance(t, F32):
        return "f32"
    if isinstance(t, F64):
        return "f64"
    if isinstance(t, Str):
        return "str"
    if isinstance(t, (EnumRef, StructRef)):
        return t.name
    if isinstance(t, Arr):
        return f"[{type_text(t.t)}, {t.n}]"
    if isinstance(t, Dyn):
        return f"[{type_text(t.t)}]"
    if isinstance(t, Opt):
        return f"Optional[{type_text(t.t)}]"
    raise TypeError(t)


# ----------------------------------------------------------------------- value forms
@dataclass(frozen=True)
class Ident:
    """An identifier used as an extension value (parsed to a plain str)."""

    name: str


@dataclass(frozen=True)
class Num:
    """A number with an explicit spelling; `value` is what the parser must return."""

    text: str
    value: Union[int, float]


# extension value: int | float | str (string literal) | Ident | Num | list of those


# ---------------------------------------------------------------------- declarations
@dataclass
class Field:
    name: str
    fid: int
    type: Type
    unit: Optional[str] = None
    rng: Optional[Tuple[float, float]] = None
    # order in which unit / range params are written ("ur" or "ru")
    param_order: str = "ur"
    # extra params written verbatim (token lists) — only used for out-of-domain inputs (C11)
    raw_params: Optional[List[List[str]]] = None


@dataclass
class Struct:
    name: str
    fields: List[Field]

    def field(self, name: str) -> Field:
        for f in self.fields:
            if f.name == name:
                return f
        raise KeyError(name)


@dataclass
class Enum:
    name: str
    items: List[Tuple[str, int]]

    def max(self) -> int:
        return max(v for _, v in self.items)

    def width(self) -> int:
        return max(1, self.max().bit_length())


@dataclass
class SignalBlock:
    name: str
    fields: List[Tuple[str, Any]]


@dataclass
class Impl:
    protocol: str
    type: str
    name: Optional[str] = None  # "as" name; None => same as type
    fields: List[Tuple[str, Any]] = field(default_factory=list)
    signals: List[SignalBlock] = field(default_factory=list)
    # interleaving of extension fields and signal blocks: list of ('f', i) / ('s', i)
    order: Optional[List[Tuple[str, int]]] = None
    explicit_as: bool = True  # when name is given: write the "as" keyword or not

    @property
    def eff_name(self) -> str:
        return self.name if self.name is not None else self.type

    def get(self, key: str, default: Any = None) -> Any:
        out = default
        for k, v in self.fields:
            if k == key:
                out = v
        return out


@dataclass
class Method:
    name: str
    input: str
    id: int
    output: str


@dataclass
class Service:
    name: str
    id: int
    methods: List[Method]


@dataclass
class Device:
    name: str
    fields: List[Tuple[str, Any]]


@dataclass
class Mod:
    """`mod a.b.c;` — path components; the module's own Schema rides along."""

    path: List[str]
    schema: Optional["Schema"] = None


Decl = Union[Struct, Enum, Impl, Service, Device, Mod]


@dataclass
class Schema:
    decls: List[Decl] = field(default_factory=list)

    # -- convenience views (source order, imports NOT inlined)
    @property
    def structs(self) -> List[Struct]:
        return [d for d in self.decls if isinstance(d, Struct)]

    @property
    def enums(self) -> List[Enum]:
        return [d for d in self.decls if isinstance(d, Enum)]

    @property
    def impls(self) -> List[Impl]:
        return [d for d in self.decls if isinstance(d, Impl)]

    @property
    def services(self) -> List[Service]:
        return [d for d in self.decls if isinstance(d, Service)]

    @property
    def devices(self) -> List[Device]:
        return [d for d in self.decls if isinstance(d, Device)]

    def struct(self, name: str) -> Struct:
        for s in self.structs:
            if s.name == name:
                return s
        raise KeyError(name)

    def enum(self, name: str) -> Enum:
        for e in self.enums:
            if e.name == name:
                return e
        raise KeyError(name)

    def inlined(self) -> "Schema":
        """Single-file equivalent: every Mod replaced by its module's declarations."""
        out: List[Decl] = []
        for d in self.decls:
            if isinstance(d, Mod):
                assert d.schema is not None
                out.extend(d.schema.inlined().decls)
            else:
                out.append(d)
        return Schema(out)


def plain_value(v: Any) -> Any:
    """What the parser must return for an extension value."""
    if isinstance(v, Ident):
        return v.name
    if isinstance(v, Num):
        return v.value
    if isinstance(v, list):
        return [plain_value(x) for x in v]
    return v


def type_contains_struct(t: Type) -> bool:
    return isinstance(type_leaf(t), StructRef)
