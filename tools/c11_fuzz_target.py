#!/venv/bin/python
"""libFuzzer entry point (atheris) for the FCP parser with the C11 oracle inside."""
import hashlib
import os
import sys

HERE = os.path.dirname(os.path.dirname(os.path.abspath(__file__)))
sys.path.insert(0, HERE)
sys.path.insert(0, os.path.join(HERE, ".deps"))

import atheris  # noqa: E402

with atheris.instrument_imports(include=["fcp", "lark"]):
    import fcp.parser  # noqa: F401,E402

from props import c11  # noqa: E402

FOUND = os.environ.get("VERIF_C11_FOUND", "/tmp")
_seen = set()


def TestOneInput(data: bytes) -> None:
    try:
        text = data.decode("utf-8")
    except UnicodeDecodeError:
        text = data.decode("latin-1")
    _kind, bad = c11.run_text(text)
    if bad and bad[0] not in _seen:
        _seen.add(bad[0])
        name = hashlib.sha1(bad[0].encode()).hexdigest()[:12]
        with open(os.path.join(FOUND, name), "wb") as f:
            f.write(text.encode("utf-8"))


if __name__ == "__main__":
    atheris.Setup(sys.argv, TestOneInput)
    atheris.Fuzz()
