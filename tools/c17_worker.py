#!/venv/bin/python
"""Worker for C17: executes a list of operations read as JSON from stdin and prints the
observed {relative path: contents} maps as JSON.  The interpreter's hash seed is whatever
PYTHONHASHSEED the parent chose for this process."""
import contextlib
import io
import json
import os
import re
import sys
import tempfile
import shutil

HERE = os.path.dirname(os.path.dirname(os.path.abspath(__file__)))
sys.path.insert(0, HERE)
REPO = os.environ.get("VERIF_REPO", "/repo")
for p in ("fcp_dbc", "fcp_nop", "fcp_can_c", "fcp_cpp"):
    sys.path.append(os.path.join(REPO, "plugins", p))

STAMP = re.compile(r"^// Generated using fcp .*$", re.M)


def observe(gen, fcp, out_dir):
    import importlib

    mod = importlib.import_module("fcp_" + gen)
    with contextlib.redirect_stdout(io.StringIO()):
        res = mod.Generator().generate(fcp, {"output": out_dir, "templates": {}, "skels": {}})
    out = {}
    for r in res:
        if r.get("type") == "file":
            rel = os.path.relpath(str(r["path"]), out_dir)
            out[rel] = STAMP.sub("// Generated using fcp <stamp>", str(r["contents"]))
        else:
            out["<print>"] = str(r.get("contents"))
    return out


def main():
    from fcp.error import Logger
    from fcp.parser import get_fcp_from_string

    jobs = json.load(sys.stdin)
    work = tempfile.mkdtemp(prefix="verif-c17-")
    os.chdir(work)
    results = []
    try:
        for job in jobs:
            op = job["op"]
            try:
                if op == "parse":
                    get_fcp_from_string(job["text"], Logger({}))
                    results.append({"op": op})
                elif op == "generate":
                    fcp = get_fcp_from_string(job["text"], Logger({})).unwrap()
                    out_dir = os.path.join(work, "out")
                    maps = [observe(job["gen"], fcp, out_dir)]
                    for _ in range(job.get("repeat_same_object", 0)):
                        maps.append(observe(job["gen"], fcp, out_dir))
                    results.append({"op": op, "maps": maps})
                else:
                    results.append({"op": op, "error": "unknown op"})
            except BaseException as e:  # noqa: BLE001 - reported to the parent, which decides
                results.append({"op": op, "exception": f"{type(e).__name__}: {e}"[:300]})
    finally:
        os.chdir("/")
        shutil.rmtree(work, ignore_errors=True)
    json.dump(results, sys.stdout)


if __name__ == "__main__":
    main()
