#!/venv/bin/python
"""Regenerates seeded/INDEX.md from the meta.json files."""
import json, os, glob

HERE = os.path.dirname(os.path.dirname(os.path.abspath(__file__)))
rows = []
for d in sorted(glob.glob(os.path.join(HERE, "seeded", "*", "meta.json"))):
    m = json.load(open(d))
    name = os.path.basename(os.path.dirname(d))
    need = m["what_it_needs_to_manifest"].replace("\n", " ")
    first = need.split("- ")[1] if "- " in need else need
    rows.append((name, m["property"], first[:230].replace("|", "/"), m["checks_run"].replace("|", "/"), (m.get("note") or "").replace("|", "/")))
out = ["# Seeded changes and the checks that catch them", "",
       "Each directory holds `patch.diff` (apply with `git -C /repo apply <file>`, undo with `git -C /repo checkout -- .`),",
       "the sub-agent's demonstration (`demo.py`, run with `FCP_TREE=<tree>`), its `notes.md` and `meta.json`.",
       "Every change passes the 167 baseline tests; every demo fails with the change and passes without it",
       "(re-confirmed with `tools/seed_eval.sh`).", "",
       "| dir | property | the change (first line of the notes) | result | strengthening made |", "|---|---|---|---|---|"]
for r in rows:
    out.append("| " + " | ".join(r) + " |")
caught = sum(1 for r in rows if "caught" in r[3])
missed_first = sum(1 for r in rows if r[3].startswith("MISSED"))
out += ["", f"{len(rows)} changes kept; {caught} are caught by the registered quick check of their property; {missed_first} of them were "
        "missed by the first version of the check and led to a stronger generator (column 5)."]
open(os.path.join(HERE, "seeded", "INDEX.md"), "w").write("\n".join(out) + "\n")
print(len(rows), "seeds indexed")
