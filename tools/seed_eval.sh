#!/bin/sh
# usage: tools/seed_eval.sh <dir with patch.diff + demo.py|demo.sh> <ID> [more check IDs...]
# Confirms a seeded change in a fresh scratch worktree of /repo HEAD (never in /repo):
#   1. the patch applies, 2. the 167 baseline tests still pass, 3. the demo fails with the
#   change and passes without it, 4. runs the named quick checks against the changed tree.
D="$(realpath "$1")"; shift
WT="$(mktemp -d /tmp/verif-seed-XXXXXX)"; rmdir "$WT"
git -C /repo worktree add -q --detach "$WT" HEAD || exit 2
cleanup() { git -C /repo worktree remove --force "$WT" 2>/dev/null; }
trap cleanup EXIT
if [ -f "$D/demo.py" ]; then DEMO="/venv/bin/python $D/demo.py"; else DEMO="sh $D/demo.sh"; fi
echo "== demo on unchanged tree"; ( cd "$WT" && FCP_TREE="$WT" PYTHONPATH="$WT/src" $DEMO >/tmp/seed_demo_clean.$$.log 2>&1 ); echo "exit=$? (want 0)"
( cd "$WT" && git apply "$D/patch.diff" ) || { echo "PATCH DOES NOT APPLY"; exit 2; }
echo "== baseline tests on changed tree"
( cd "$WT" && PYTHONPATH="$WT/src" /venv/bin/python -m pytest -q -p no:cacheprovider -x tests plugins/fcp_dbc plugins/fcp_nop 2>&1 | tail -2 )
echo "== demo on changed tree"; ( cd "$WT" && FCP_TREE="$WT" PYTHONPATH="$WT/src" $DEMO >/tmp/seed_demo_changed.$$.log 2>&1 ); echo "exit=$? (want non-zero)"; tail -3 /tmp/seed_demo_changed.$$.log
cd "$(dirname "$0")/.."
for id in "$@"; do
  echo "== check $id on changed tree"
  VERIF_REPO="$WT" PYTHONPATH="$WT/src" VERIF_NO_EVIDENCE=1 ./check "$id" ${VERIF_SEED_TIER:-quick} > /tmp/seed_check.$$.log 2>&1; rc=$?
  grep -v "^  File\|^    " /tmp/seed_check.$$.log | tail -${VERIF_MUT_TAIL:-4} | cut -c1-400
  echo "== $id exit=$rc"
done
