#!/venv/bin/python
"""Regenerates /verif/MANIFEST.json from the table below (kept valid at all times)."""
import json, os, sys

HERE = os.path.dirname(os.path.dirname(os.path.abspath(__file__)))
sys.path.insert(0, HERE)

CHECKS = {
    "C01": dict(
        technique="property-based testing (Hypothesis): generated schema x value round-trip through the real front end and codec",
        text="Generated-input search: thousands of schemas over every type constructor, width 1..64 and bit alignment, with boundary-biased values; decode(encode(v)) compared structurally (floats bit-for-bit); histories in one interpreter (same-named edited variants of the schema, load/use/drop alternation, failed calls in between) and a second, smaller run under `python -O`. Finds counterexamples, never proves absence.",
        note="Trusted: vlib generators/printer, Hypothesis. Enum values are integers. One recorded known finding (PY-SIGNED-MIN) is suppressed by exact signature only.",
        ref="4/C01"),
    "C02": dict(
        technique="differential property-based testing against an independent reference codec validated on the project's vectors",
        text="Generated-input differential test: serde.encode bytes == reference canonical encoder and serde.decode(reference bytes) == value, plus the 26 project vectors through the Python codec, the same one-interpreter histories as C01 and a smaller run under `python -O`. A symmetric encode/decode error is visible because the reference shares no code with fcp.serde.",
        note="Trusted: vlib/refcodec.py (self-tested against tests/standardized/fcp_tests.json at every run).",
        ref="4/C02"),
    "C04": dict(
        technique="property-based testing over generated operation histories against a reference layout fold",
        text="Generated-input search over fixed-size schema shapes and histories of generate()/new-encoder operations on one PackedEncoder; every returned layout is compared with an independent reference fold, with the tiling invariants, with a fresh encoder (history independence) and with the signal-block option rules.",
        note="Trusted: vlib/reflayout.py. Unrolled-array elements' options are unconstrained (statement silent). unroll_arrays=False with arrays of structs is outside the domain.",
        ref="4/C04"),
    "C12": dict(
        technique="property-based round-trip plus differential comparison with an independently built reflection record",
        text="Generated full schemas (every node kind) through the real front end; reflection() is compared key-by-key with a record built from the description alone and round-tripped through serde with the built-in reflection schema.",
        note="Trusted: vlib/expected_tree.py. 'meta' positions only need to survive the round-trip.",
        ref="4/C12"),
    "C16": dict(
        technique="fault injection by generated truncation/corruption of valid encodings, reference decoder as oracle, step-counting work bound",
        text="Every strict prefix (all byte cuts up to 48 bytes, sampled beyond) and every length prefix corrupted to count+1/+1000/2^31/2^32-1 of generated valid encodings; serde.decode must raise whenever the reference decoder runs out of bits, within a deterministic step budget proportional to the input length.",
        note="Trusted: reference decoder; work is counted by wrapping _Buffer.get_bit/_decode and fcp.serde's range from outside, never by wall-clock.",
        ref="4/C16"),
    "C07": dict(
        technique="grammar-directed property-based testing: print(description) -> parse == description, plus metamorphic formatting variants",
        text="Generated descriptions over every production (incl. identifiers that begin like builtin types) are printed, parsed by the real front end and compared, type-strictly and order-sensitively, with a tree built from the description alone; two further renderings with random whitespace, comments (adversarial bodies) and optional separators must give the identical tree; plus the in-place edit sessions over module trees shared with C20.",
        note="Trusted: vlib/printer.py and vlib/expected_tree.py. Strings exclude quote/backslash/newline; keywords are not identifiers; ranges are float literals.",
        ref="4/C07"),
    "C08": dict(
        technique="property-based testing with injected negative cases over generated module trees",
        text="Generated module trees with one reference optionally replaced by a self/forward/undeclared/out-of-scope reference at any container depth; accepted trees are walked leaf by leaf (get_type resolution, kind tag, declared-before), rejected ones must be Err with a diagnostic naming the type and the struct; plus the in-place edit sessions over module trees shared with C20 (a removed or re-kinded type must not stay resolvable for untouched modules).",
        note="Trusted: vlib/modules.py generator. Type names unique per tree.",
        ref="4/C08"),
    "C11": dict(
        technique="fuzzing: generated prefixes, token mutations, grammar-aware out-of-domain literals, random text, and (thorough) an atheris/libFuzzer coverage-guided campaign; failures bucketed by root cause and delta-minimised",
        text="Robustness search over ~36k inputs per quick run: every prefix of generated and repository schemas, token-level mutations, 30 kinds of out-of-domain literal, noise; each outcome must be Ok(FcpV2) or a renderable Err(FcpError) whose .fcp citations exist. Thorough adds a coverage-guided atheris campaign (lark and fcp instrumented) from empty and seeded corpora.",
        note="Inputs <= 2 KB; termination is observed, not proved. A hung parse would stall the check (inconclusive), never be reported as a violation.",
        ref="4/C11"),
    "C20": dict(
        technique="property-based differential testing of generated module trees against their single-file inlining, with fault injection",
        text="Generated trees of real module files (depth <= 3, dotted paths, sub-directories): get_fcp(root) by absolute and relative path must equal the parse of the inlined text and the tree built from the description; one injected fault (illegal character, unterminated declaration, undeclared type, semantic error, missing file) must yield an Err naming the module/file; plus edit sessions: one directory edited in place (module emptied, enums turned into structs, fault typed in and removed) and re-loaded 2-4 times by the same process, each load compared with the single-file parse of what is on disk.",
        note="Trusted: vlib/modules.py. Module path components are unique within a tree.",
        ref="4/C20"),
    "C05": dict(
        technique="property-based differential testing: generated DBC read back by an independent reader and by cantools, frames packed with the reference layout decoded through the DBC",
        text="Generated CAN schemas (<= 64 bits per message, every leaf kind, big-endian, mux, several buses); each generated file is parsed by an own DBC reader and by cantools and compared signal by signal with the reference layout; frames packed from generated values decode through the DBC to the original values.",
        note="Trusted: vlib/reflayout.py, vlib/dbcreader.py, cantools as a second reader. Signal blocks only on top-level scalar fields.",
        ref="4/C05"),
    "C09": dict(
        technique="exhaustive small-scope enumeration (factorised, itertools.product over 16 processes) plus property-based testing with injected violations, against a reference predicate",
        text="Thorough enumerates ~1.17M small trees completely in three factors (structs x enums, binding lists x declared structs, services x devices) under three check configurations and compares verify() with a 30-line reference predicate, including equality of the verdict across all permutations; quick samples 1/50 of the permutation groups; larger random schemas with injected violations go through the real front end.",
        note="Trusted: vlib/specverifier.py. Plug-in clauses are three-valued where the statement is silent (non-CAN bindings, id-less bindings).",
        ref="4/C09"),
    "C10": dict(
        technique="property-based fault-sequence testing with directory snapshots and a recording wrapper around the plug-in",
        text="Generated (schema, injected violation, generator, entry point, pre-existing directory content) cases run GeneratorManager.generate and the click command on a scratch directory; rejected schemas must report an error and leave the snapshot unchanged, accepted ones must write exactly the files and contents the plug-in returned.",
        note="Trusted: reference predicate (C09) for must-fail/must-pass, the library's verifier where the statement is silent.",
        ref="4/C10"),
    "C14": dict(
        technique="property-based boundary testing around the 64-bit limit with placement classes, reference size as oracle, regex/own-reader validation of emitted signals",
        text="Generated CAN bindings of reference size 57..200 bits (bulk in any field, nested struct, array or enum) and with variable-size fields at any depth; DBC and C generation must fail and emit nothing for non-fitting messages, and every signal in successfully generated DBC/C output must lie inside its message without overlap.",
        note="Trusted: vlib/reflayout.py for the size; an exception counts as failure.",
        ref="4/C14"),
    "C15": dict(
        technique="metamorphic property-based testing on declaration-permuted twin schemas, per back end",
        text="Generated schema S and its twin S' (fields of every struct re-ordered, ids fixed): packed layouts, generated DBC files, Python codec bytes (also == reference) must be identical; twin programs are additionally compiled for the C and C++ back ends where those engines are built.",
        note="Trusted: permutation generator; the reference codec for the absolute order. Compiled twins are few (each needs compilations).",
        ref="4/C15"),
    "C17": dict(
        technique="differential testing across fresh subprocesses, hash seeds and generated in-process operation histories",
        text="Each generated (schema, generator) is rendered in a fresh process under PYTHONHASHSEED=0, in a fresh process under another seed, at the end of a generated history of parse/generate operations in a long-lived worker, again on the re-parsed schema and twice more on the same FcpV2 object; all {path: contents} maps must be identical (documented C++ stamp line blanked).",
        note="Hash seeds are sampled (3 per schema). Worker processes are real interpreters started with the chosen PYTHONHASHSEED.",
        ref="4/C17"),
    "C06": dict(
        technique="differential testing of generated programs: generated C compiled with gcc and driven through stdin/stdout against the reference layout packing",
        text="Hundreds of generated flat CAN schemas are rendered by fcp_can_c from the working tree, compiled with a generated driver and fed thousands of boundary-biased values; encode frames (id, dlc, data) and decoded values are compared with the reference layout packing.",
        note="Trusted: vlib/reflayout.py, gcc. Names are back-end safe; NaN excluded; -0.0 compared numerically on decode.",
        ref="4/C06"),
    "C19": dict(
        technique="model-based testing over generated call histories: compiled scheduler vs a 10-line reference automaton, one process per history",
        text="Generated devices/periods and generated histories of advance(delta)/set(value) steps (deltas around P, repeated timestamps, 2^32 wrap-around) are run against the compiled generated scheduler in a fresh process per history; the frames handed to the callback after every step must equal the reference automaton's output and the reference encoding of the current values.",
        note="Trusted: the reference automaton (from the statement), reflayout packing, gcc.",
        ref="4/C19"),
    "C03": dict(
        technique="differential testing of generated programs: generated C++ compiled with g++ and driven through a JSON-lines harness against the reference codec",
        text="Dozens of generated schemas of 8-14 structs are rendered by fcp_cpp from the working tree and compiled as C++17 (harness TU plus a syntax-only TU including every generated header); thousands of boundary-biased values per run go through StaticSchema::EncodeJson/DecodeJson and are compared with the reference canonical bytes in both directions.",
        note="Trusted: vlib/refcodec.py, g++, the vendored nlohmann/json. Finite floats only (JSON); enumerators <= 255; back-end-safe names.",
        ref="4/C03"),
    "C13": dict(
        technique="differential testing of two generated codecs (reflection-loaded vs static) inside one compiled harness, triangulated with the reference codec",
        text="The C03 programs are loaded a second time at run time from the reflection binary produced by the Python tool; every value is encoded and every canonical byte string decoded by both C++ codecs and the answers must coincide (enumerators by name on the run-time side) and equal the reference.",
        note="Trusted: reference codec; the Python reflection encoder (C12) produces the binary that is loaded.",
        ref="4/C13"),
    "C18": dict(
        technique="differential testing of generated programs: CAN frame wrappers (static and reflection-loaded) against frames built from the reference codec, plus non-matching frames",
        text="Generated CAN programs with 2-6 bindings, ids 0..2047 and bus names of 1-4 characters: Encode must give the binding's id, NUL-padded bus, dlc and canonical data; Decode must return the name and value; frames whose (id, bus) matches no binding must be unknown; static and run-time schemas must agree.",
        note="Bindings without a bus are only used as non-matching controls (their tag is not defined by the statement).",
        ref="4/C18"),
}

PENDING = {}


def main():
    props = [json.loads(l) for l in open(os.path.join(HERE, "properties.jsonl"))]
    checks = []
    na = []
    for p in props:
        pid = p["id"]
        if pid in CHECKS:
            c = CHECKS[pid]
            checks.append({
                "property_id": pid,
                "quick_cmd": f"./check {pid} quick",
                "thorough_cmd": f"./check {pid} thorough",
                "evidence_file": f"evidence/{pid}.json",
                "replay_cmd_template": f"./check {pid} --replay {{path}}",
                "engine": "vlib",
                "level_claimed": {"category": c.get("category", "exploration"), "text": c["text"], "design_ref": f"DESIGN.md section {c['ref']}"},
                "level_note": c["note"],
                "technique": c["technique"],
            })
        else:
            na.append({"property_id": pid, "reason": PENDING.get(pid, "check not built yet in this round (planned in DESIGN.md section 4); not claimed until it exists and is quiet on the unchanged tree")})
    man = {
        "version": 1,
        "setup_cmd": "sh tools/setup.sh",
        "hooks": {
            "guard": "FCP_CORE_VERIF",
            "enable": "no source hooks are needed: checks import /repo's working tree (editable install) and wrap public functions from outside; ./check exports FCP_CORE_VERIF=1 for uniformity",
            "baseline_off_cmd": "cd /repo && /venv/bin/python -m pytest -ra -q -p no:cacheprovider --timeout=900 --continue-on-collection-errors",
            "source_commits": [],
            "add_only": True,
        },
        "engines": [
            {"name": "vlib", "path": "vlib/", "serves_properties": sorted(CHECKS), "kind_free_text": "Hypothesis strategies over an own schema model, FCP printer, reference codec/layout/verifier oracles, 16-way sharded runner with replay + evidence"},
        ],
        "checks": checks,
        "notes": "All checks: ./check <ID> <quick|thorough>; exit 0 held / 1 VIOLATION / 2 harness error. Known genuine defects are in known_findings.json.",
        "not_applicable": na,
    }
    with open(os.path.join(HERE, "MANIFEST.json"), "w") as f:
        json.dump(man, f, indent=1)
    print(f"MANIFEST.json: {len(checks)} checks, {len(na)} not claimed")


if __name__ == "__main__":
    main()
