#!/bin/sh
# usage: tools/seed_regress.sh <VERIF_SEED> <out file> <seeded dir> [...]
# Re-runs the registered quick check of each kept seeded change against a scratch worktree with the patch applied,
# at the given VERIF_SEED (robustness of the detections across seeds).  Never touches /repo's working tree.
SEED="$1"; OUT="$2"; shift 2
cd "$(dirname "$0")/.."
for d in "$@"; do
  name="$(basename "$d")"; abs="$(realpath "$d")"
  pid="$(/venv/bin/python -c "import json,sys; print(json.load(open(sys.argv[1]))['property'])" "$d/meta.json")"
  WT="$(mktemp -d /tmp/verif-sreg-XXXXXX)"; rmdir "$WT"
  git -C /repo worktree add -q --detach "$WT" HEAD || exit 2
  if ( cd "$WT" && git apply "$abs/patch.diff" ); then
    VERIF_SEED="$SEED" VERIF_REPO="$WT" PYTHONPATH="$WT/src" VERIF_NO_EVIDENCE=1 ./check "$pid" quick > "/tmp/sreg.$$.log" 2>&1; rc=$?
    echo "$name $pid seed=$SEED exit=$rc" >> "$OUT"
  else
    echo "$name $pid patch does not apply" >> "$OUT"
  fi
  git -C /repo worktree remove --force "$WT"
done
rm -f "/tmp/sreg.$$.log"
