#!/bin/sh
# usage: tools/mutant_check.sh <patch.diff> <ID> [<ID> ...]
# Applies the patch to a scratch worktree of /repo HEAD (never to /repo itself), runs the quick
# checks against that worktree, prints each check's last lines and removes the worktree.
PATCH="$(realpath "$1")"; shift
WT="$(mktemp -d /tmp/verif-mut-XXXXXX)"
rmdir "$WT"
git -C /repo worktree add -q --detach "$WT" HEAD || exit 2
( cd "$WT" && git apply "$PATCH" ) || { git -C /repo worktree remove --force "$WT"; echo "patch does not apply"; exit 2; }
cd "$(dirname "$0")/.."
for id in "$@"; do
  VERIF_REPO="$WT" PYTHONPATH="$WT/src" VERIF_NO_EVIDENCE=1 ./check "$id" quick ${VERIF_MUT_ARGS:-} 2>&1 | grep -v "^  File\|^    " | tail -${VERIF_MUT_TAIL:-4}
  echo "== $id exit=$?"
done
git -C /repo worktree remove --force "$WT"
