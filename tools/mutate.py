#!/venv/bin/python
"""Systematic one-site mutants of the anchored Python sources.

usage: tools/mutate.py <repo root> <out dir> [--per-file N] [--seed S] [files...]

Writes <out dir>/<NNNN>.diff (a `git apply`-able patch against the tree at <repo root>) and
<out dir>/index.json (id, file, line, operator, before, after).  The operators are the classic
ones (relational boundary / negation, integer constant +-1, and<->or, `not` removal, arithmetic
and shift swaps, statement deletion of calls and augmented assignments, `sorted(x, ...)` ->
`list(x)`), applied textually at the AST node's span so that the patch is one small hunk.
Sampling (when --per-file is given) uses random.Random(seed): a sweep is a pure function of
the tree and the seed.  This is tooling for measuring the sensitivity of the checks; it never
touches /repo (the sweep applies each patch in a scratch worktree).
"""
from __future__ import annotations

import ast
import difflib
import json
import os
import random
import sys
from typing import List, Optional, Tuple

DEFAULT_FILES = [
    "src/fcp/serde.py",
    "src/fcp/encoding.py",
    "src/fcp/verifier.py",
    "src/fcp/parser.py",
    "src/fcp/codegen.py",
    "src/fcp/error.py",
    "src/fcp/error_logger.py",
    "src/fcp/reflection.py",
    "src/fcp/types.py",
    "src/fcp/specs/v2.py",
    "src/fcp/specs/type.py",
    "src/fcp/specs/enum.py",
    "src/fcp/specs/struct.py",
    "src/fcp/specs/struct_field.py",
    "src/fcp/specs/impl.py",
    "src/fcp/specs/signal_block.py",
    "src/fcp/specs/service.py",
    "src/fcp/specs/method.py",
    "src/fcp/specs/device.py",
    "plugins/fcp_dbc/fcp_dbc/dbc_writer.py",
    "plugins/fcp_dbc/fcp_dbc/generator.py",
    "plugins/fcp_can_c/fcp_can_c/can_c_writer.py",
    "plugins/fcp_can_c/fcp_can_c/generator.py",
    "plugins/fcp_cpp/fcp_cpp/generator.py",
    "plugins/fcp_cpp/fcp_cpp/rpc.py",
]

CMP_SWAP = {
    ast.Lt: ["<="], ast.LtE: ["<"], ast.Gt: [">="], ast.GtE: [">"],
    ast.Eq: ["!="], ast.NotEq: ["=="], ast.Is: ["is not"], ast.IsNot: ["is"],
    ast.In: ["not in"], ast.NotIn: ["in"],
}
CMP_TXT = {ast.Lt: "<", ast.LtE: "<=", ast.Gt: ">", ast.GtE: ">=", ast.Eq: "==", ast.NotEq: "!=",
           ast.Is: "is", ast.IsNot: "is not", ast.In: "in", ast.NotIn: "not in"}
BIN_SWAP = {ast.Add: ("+", "-"), ast.Sub: ("-", "+"), ast.Mult: ("*", "+"), ast.FloorDiv: ("//", "*"),
            ast.LShift: ("<<", ">>"), ast.RShift: (">>", "<<"), ast.BitAnd: ("&", "|"), ast.BitOr: ("|", "&"),
            ast.Mod: ("%", "//")}


class Site:
    def __init__(self, line0: int, col0: int, line1: int, col1: int, new: str, op: str):
        self.span = (line0, col0, line1, col1)
        self.new = new
        self.op = op


def _offsets(src: str) -> List[int]:
    offs, n = [0], 0
    for ln in src.splitlines(keepends=True):
        n += len(ln.encode())
        offs.append(n)
    return offs


def collect(src: str) -> List[Site]:
    tree = ast.parse(src)
    data = src.encode()
    offs = _offsets(src)

    def seg(n: ast.AST) -> str:
        return data[offs[n.lineno - 1] + n.col_offset: offs[n.end_lineno - 1] + n.end_col_offset].decode()

    def between(a: ast.AST, b: ast.AST) -> Tuple[int, int, str]:
        s = offs[a.end_lineno - 1] + a.end_col_offset
        e = offs[b.lineno - 1] + b.col_offset
        return s, e, data[s:e].decode()

    sites: List[Tuple[int, int, str, str, int]] = []  # byte start, byte end, new, op, line

    # nodes that are annotations / docstrings / decorators: skip
    skip: set = set()
    for n in ast.walk(tree):
        if isinstance(n, (ast.FunctionDef, ast.AsyncFunctionDef)):
            for a in n.args.args + n.args.kwonlyargs + n.args.posonlyargs:
                if a.annotation is not None:
                    skip.update(id(x) for x in ast.walk(a.annotation))
            if n.returns is not None:
                skip.update(id(x) for x in ast.walk(n.returns))
            for d in n.decorator_list:
                skip.update(id(x) for x in ast.walk(d))
        if isinstance(n, ast.AnnAssign):
            skip.update(id(x) for x in ast.walk(n.annotation))
        if isinstance(n, (ast.FunctionDef, ast.ClassDef, ast.Module)) and n.body and isinstance(n.body[0], ast.Expr) \
                and isinstance(n.body[0].value, ast.Constant) and isinstance(n.body[0].value.value, str):
            skip.add(id(n.body[0]))
            skip.add(id(n.body[0].value))
        if isinstance(n, ast.Raise):
            skip.update(id(x) for x in ast.walk(n))  # messages of raised errors

    for n in ast.walk(tree):
        if id(n) in skip:
            continue
        if isinstance(n, ast.Compare):
            operands = [n.left] + list(n.comparators)
            for i, op in enumerate(n.ops):
                if type(op) not in CMP_SWAP:
                    continue
                s, e, txt = between(operands[i], operands[i + 1])
                old = CMP_TXT[type(op)]
                if txt.count(old) < 1 or "\n" in txt:
                    continue
                for new in CMP_SWAP[type(op)]:
                    k = txt.find(old)
                    # "is not"/"not in" contain "is"/"in": take the full token
                    sites.append((s + k, s + k + len(old), new, f"cmp {old}->{new}", n.lineno))
        elif isinstance(n, ast.BoolOp) and len(n.values) >= 2:
            s, e, txt = between(n.values[0], n.values[1])
            old = "and" if isinstance(n.op, ast.And) else "or"
            new = "or" if old == "and" else "and"
            k = txt.find(old)
            if k >= 0 and "\n" not in txt:
                sites.append((s + k, s + k + len(old), new, f"bool {old}->{new}", n.lineno))
        elif isinstance(n, ast.UnaryOp) and isinstance(n.op, ast.Not):
            s = offs[n.lineno - 1] + n.col_offset
            e = offs[n.end_lineno - 1] + n.end_col_offset
            sites.append((s, e, "(" + seg(n.operand) + ")", "not removed", n.lineno))
        elif isinstance(n, ast.BinOp) and type(n.op) in BIN_SWAP:
            if isinstance(n.op, ast.Mod) and isinstance(n.left, ast.Constant) and isinstance(n.left.value, str):
                continue
            if isinstance(n.op, ast.Add) and (isinstance(n.left, (ast.Constant, ast.JoinedStr)) and not isinstance(getattr(n.left, "value", 0), (int, float))):
                continue  # string concatenation
            s, e, txt = between(n.left, n.right)
            old, new = BIN_SWAP[type(n.op)]
            k = txt.find(old)
            if k >= 0 and "\n" not in txt:
                sites.append((s + k, s + k + len(old), new, f"arith {old}->{new}", n.lineno))
        elif isinstance(n, ast.Constant) and type(n.value) is int and hasattr(n, "end_col_offset"):
            s = offs[n.lineno - 1] + n.col_offset
            e = offs[n.end_lineno - 1] + n.end_col_offset
            sites.append((s, e, str(n.value + 1), f"const {n.value}->{n.value + 1}", n.lineno))
            if n.value > 0:
                sites.append((s, e, str(n.value - 1), f"const {n.value}->{n.value - 1}", n.lineno))
        elif isinstance(n, ast.AugAssign):
            s = offs[n.lineno - 1] + n.col_offset
            e = offs[n.end_lineno - 1] + n.end_col_offset
            sites.append((s, e, "pass", "augassign deleted", n.lineno))
        elif isinstance(n, ast.Expr) and isinstance(n.value, ast.Call):
            s = offs[n.lineno - 1] + n.col_offset
            e = offs[n.end_lineno - 1] + n.end_col_offset
            sites.append((s, e, "pass", "call statement deleted", n.lineno))
        elif isinstance(n, ast.Call) and isinstance(n.func, ast.Name) and n.func.id == "sorted" and n.args:
            s = offs[n.lineno - 1] + n.col_offset
            e = offs[n.end_lineno - 1] + n.end_col_offset
            sites.append((s, e, "list(" + seg(n.args[0]) + ")", "sorted -> list", n.lineno))
        elif isinstance(n, ast.If) and not isinstance(n.test, ast.Constant):
            t = n.test
            s = offs[t.lineno - 1] + t.col_offset
            e = offs[t.end_lineno - 1] + t.end_col_offset
            sites.append((s, e, "not (" + seg(t) + ")", "if negated", n.lineno))
    out = []
    for s, e, new, op, line in sorted(set(sites)):
        out.append((s, e, new, op, line))
    return out  # type: ignore


C_FILES = [
    "plugins/fcp_can_c/templates/can_device_c.jinja",
    "plugins/fcp_can_c/templates/can_signal_parser.c",
    "plugins/fcp_cpp/fcp_cpp/buffer.h",
    "plugins/fcp_cpp/fcp_cpp/decoders.h",
    "plugins/fcp_cpp/fcp_cpp/can_dynamic_schema.h",
    "plugins/fcp_cpp/fcp_cpp/can_static_schema.h",
    "plugins/fcp_cpp/fcp_cpp/dynamic.h.j2",
    "plugins/fcp_cpp/fcp_cpp/fcp.h.j2",
]

import re

_C_RULES = [
    (re.compile(r"(?<=[\w\)\]] )<(?= [\w\(\-])"), "<=", "c cmp <-><="),
    (re.compile(r"(?<=[\w\)\]] )<=(?= [\w\(\-])"), "<", "c cmp <=-><"),
    (re.compile(r"(?<=[\w\)\]] )>(?= [\w\(\-])"), ">=", "c cmp >->>="),
    (re.compile(r"(?<=[\w\)\]] )>=(?= [\w\(\-])"), ">", "c cmp >=->>"),
    (re.compile(r"=="), "!=", "c cmp ==->!="),
    (re.compile(r"!="), "==", "c cmp !=->=="),
    (re.compile(r"(?<=[\w\)\]] )\+(?= [\w\(])"), "-", "c arith +->-"),
    (re.compile(r"(?<=[\w\)\]] )-(?= [\w\(])"), "+", "c arith -->+"),
    (re.compile(r"(?<=[\w\)\]] )<<(?= [\w\(])"), ">>", "c shift <<->>>"),
    (re.compile(r"(?<=[\w\)\]] )>>(?= [\w\(])"), "<<", "c shift >>-><<"),
    (re.compile(r"(?<=[\w\)\]] )&(?= [\w\(~])"), "|", "c bit &->|"),
    (re.compile(r"(?<=[\w\)\]] )\|(?= [\w\(~])"), "&", "c bit |->&"),
    (re.compile(r"&&"), "||", "c bool &&->||"),
    (re.compile(r"\|\|"), "&&", "c bool ||->&&"),
    (re.compile(r"(?<=[\w\)\]])\+\+"), "--", "c ++->--"),
    (re.compile(r"(?<=\w )\+=(?= )"), "-=", "c +=->-="),
    (re.compile(r"(?<=\w )\|=(?= )"), "&=", "c |=->&="),
]
_C_NUM = re.compile(r"(?<![\w.\"<'])(\d+)(?![\w.\">'])")


def collect_c(src: str):
    """Text-level mutants for the C / C++ run-time sources and templates (comment, preprocessor,
    jinja-statement and string-only lines are skipped)."""
    sites = []
    off = 0
    in_block_comment = False
    for lineno, line in enumerate(src.splitlines(keepends=True), 1):
        body = line
        stripped = body.strip()
        start = off
        off += len(line.encode())
        if in_block_comment:
            if "*/" in stripped:
                in_block_comment = False
            continue
        if stripped.startswith("/*"):
            if "*/" not in stripped:
                in_block_comment = True
            continue
        if not stripped or stripped.startswith(("//", "#", "*", "{#")) or "cout" in stripped or "cerr" in stripped \
                or "stream" in stripped or "template" in stripped or "throw" in stripped or "assert" in stripped:
            continue
        code = body.split("//")[0]
        # blank out string literals so that nothing inside them is mutated
        masked = re.sub(r'"(?:[^"\\]|\\.)*"', lambda m: " " * len(m.group(0)), code)
        if masked.encode() != masked.encode("ascii", "ignore"):
            continue
        for rx, new, op in _C_RULES:
            for m in rx.finditer(masked):
                sites.append((start + m.start(), start + m.end(), new, op, lineno))
        for m in _C_NUM.finditer(masked):
            v = int(m.group(1))
            if v > 4096:
                continue
            sites.append((start + m.start(1), start + m.end(1), str(v + 1), f"c const {v}->{v + 1}", lineno))
            if v > 0:
                sites.append((start + m.start(1), start + m.end(1), str(v - 1), f"c const {v}->{v - 1}", lineno))
    return sorted(set(sites))


def main() -> int:
    args = sys.argv[1:]
    root, out = args[0], args[1]
    per_file: Optional[int] = None
    seed = 1
    files: List[str] = []
    i = 2
    while i < len(args):
        if args[i] == "--per-file":
            per_file = int(args[i + 1]); i += 2
        elif args[i] == "--seed":
            seed = int(args[i + 1]); i += 2
        else:
            files.append(args[i]); i += 1
    if files == ["--c"]:
        files = C_FILES
    files = files or DEFAULT_FILES
    os.makedirs(out, exist_ok=True)
    rng = random.Random(seed)
    index = []
    mid = 0
    for rel in files:
        path = os.path.join(root, rel)
        if not os.path.exists(path):
            continue
        src = open(path).read()
        data = src.encode()
        sites = collect(src) if rel.endswith(".py") else collect_c(src)
        if per_file is not None and len(sites) > per_file:
            sites = sorted(rng.sample(sites, per_file))
        for s, e, new, op, line in sites:
            mutated = (data[:s] + new.encode() + data[e:]).decode()
            if rel.endswith(".py"):
                try:
                    compile(mutated, rel, "exec")
                except SyntaxError:
                    continue
            if mutated == src:
                continue
            diff = "".join(difflib.unified_diff(src.splitlines(keepends=True), mutated.splitlines(keepends=True),
                                                 "a/" + rel, "b/" + rel, n=3))
            mid += 1
            name = f"{mid:04d}"
            open(os.path.join(out, name + ".diff"), "w").write(diff)
            index.append({"id": name, "file": rel, "line": line, "op": op,
                          "before": data[s:e].decode(), "after": new})
    json.dump(index, open(os.path.join(out, "index.json"), "w"), indent=1)
    print(f"{len(index)} mutants in {out}")
    return 0


if __name__ == "__main__":
    sys.exit(main())
