#!/venv/bin/python
"""Screen the mutants made by tools/mutate.py against the baseline tests and the checks.

usage: tools/mutant_sweep.py <mutant dir> <out.jsonl> [--jobs 4] [--scale 0.125] [--shards 2]
                             [--only id,id,...] [--tier quick]

Each worker owns one scratch worktree of /repo HEAD under /tmp (never /repo itself), applies one
patch at a time, runs the 167 baseline tests (-x), and -- only if they pass, i.e. the mutant is one
the existing suite cannot see -- runs the checks mapped to the mutated file, cheapest first, against
the worktree (VERIF_REPO, no evidence written), stopping at the first VIOLATION.  One JSON line per
mutant: killed_by_tests | killed (by which check) | survived (+ harness errors seen).
Worktrees are removed at the end.  Results are diagnostics for DESIGN.md section 9, not evidence.
"""
from __future__ import annotations

import json
import os
import subprocess
import sys
import time
from concurrent.futures import ThreadPoolExecutor
from queue import Queue

HERE = os.path.dirname(os.path.dirname(os.path.abspath(__file__)))
REPO = "/repo"

CHECKS = {
    "src/fcp/serde.py": ["C02", "C16", "C01", "C12"],
    "src/fcp/encoding.py": ["C04", "C05", "C14", "C15"],
    "src/fcp/verifier.py": ["C09", "C10"],
    "src/fcp/parser.py": ["C07", "C08", "C11", "C20"],
    "src/fcp/codegen.py": ["C10", "C17"],
    "src/fcp/error.py": ["C11", "C20", "C08"],
    "src/fcp/error_logger.py": ["C11", "C20"],
    "src/fcp/reflection.py": ["C12", "C13"],
    "src/fcp/types.py": ["C07", "C11"],
    "src/fcp/specs/v2.py": ["C07", "C20", "C08", "C12", "C09"],
    "src/fcp/specs/type.py": ["C12", "C07", "C01", "C04"],
    "src/fcp/specs/enum.py": ["C02", "C04", "C12", "C07"],
    "src/fcp/specs/struct.py": ["C07", "C12", "C04"],
    "src/fcp/specs/struct_field.py": ["C07", "C12"],
    "src/fcp/specs/impl.py": ["C07", "C12", "C04"],
    "src/fcp/specs/signal_block.py": ["C07", "C12", "C04"],
    "src/fcp/specs/service.py": ["C07", "C12"],
    "src/fcp/specs/method.py": ["C07", "C12"],
    "src/fcp/specs/device.py": ["C07", "C09"],
    "plugins/fcp_dbc/fcp_dbc/dbc_writer.py": ["C05", "C14", "C17"],
    "plugins/fcp_dbc/fcp_dbc/generator.py": ["C09", "C10", "C05"],
    "plugins/fcp_can_c/fcp_can_c/can_c_writer.py": ["C06", "C19", "C14", "C17"],
    "plugins/fcp_can_c/fcp_can_c/generator.py": ["C09", "C14", "C06", "C10"],
    "plugins/fcp_cpp/fcp_cpp/generator.py": ["C03", "C17", "C18", "C10"],
    "plugins/fcp_cpp/fcp_cpp/rpc.py": ["C03", "C17"],
    "plugins/fcp_can_c/templates/can_device_c.jinja": ["C19", "C06"],
    "plugins/fcp_can_c/templates/can_signal_parser.c": ["C06", "C19"],
    "plugins/fcp_cpp/fcp_cpp/buffer.h": ["C03", "C13", "C18"],
    "plugins/fcp_cpp/fcp_cpp/decoders.h": ["C03", "C13"],
    "plugins/fcp_cpp/fcp_cpp/can_dynamic_schema.h": ["C18"],
    "plugins/fcp_cpp/fcp_cpp/can_static_schema.h": ["C18"],
    "plugins/fcp_cpp/fcp_cpp/dynamic.h.j2": ["C13", "C18"],
    "plugins/fcp_cpp/fcp_cpp/fcp.h.j2": ["C03", "C13", "C18"],
}


def sh(cmd, cwd=None, env=None, timeout=None):
    try:
        p = subprocess.run(cmd, cwd=cwd, env=env, stdout=subprocess.PIPE, stderr=subprocess.STDOUT,
                           timeout=timeout, text=True, errors="replace")
        return p.returncode, p.stdout
    except subprocess.TimeoutExpired as e:
        return 124, (e.stdout or b"").decode(errors="replace") if isinstance(e.stdout, bytes) else (e.stdout or "")


def main() -> int:
    args = sys.argv[1:]
    mutdir, outpath = args[0], args[1]
    jobs, scale, shards, only, tier = 4, "0.125", "2", None, "quick"
    i = 2
    while i < len(args):
        if args[i] == "--jobs": jobs = int(args[i + 1])
        elif args[i] == "--scale": scale = args[i + 1]
        elif args[i] == "--shards": shards = args[i + 1]
        elif args[i] == "--only": only = set(args[i + 1].split(","))
        elif args[i] == "--tier": tier = args[i + 1]
        i += 2
    index = json.load(open(os.path.join(mutdir, "index.json")))
    if only:
        index = [m for m in index if m["id"] in only]
    done = set()
    if os.path.exists(outpath):
        for line in open(outpath):
            try:
                done.add(json.loads(line)["id"])
            except Exception:
                pass
    todo = [m for m in index if m["id"] not in done]
    import random
    random.Random(1).shuffle(todo)  # partial results are a uniform sample
    wts: Queue = Queue()
    made = []
    for k in range(jobs):
        wt = f"/tmp/verif-msw-{os.getpid()}-{k}"
        rc, out = sh(["git", "-C", REPO, "worktree", "add", "-q", "--detach", wt, "HEAD"])
        if rc != 0:
            print(out)
            return 2
        made.append(wt)
        wts.put(wt)
    outf = open(outpath, "a")

    def one(m):
        wt = wts.get()
        t0 = time.time()
        res = {"id": m["id"], "file": m["file"], "line": m["line"], "op": m["op"], "before": m["before"][:80],
               "after": m["after"][:80], "status": None, "by": None, "harness_errors": [], "ran": []}
        try:
            sh(["git", "-C", wt, "checkout", "-q", "--", "."])
            rc, out = sh(["git", "-C", wt, "apply", os.path.join(os.path.abspath(mutdir), m["id"] + ".diff")])
            if rc != 0:
                res["status"] = "patch_failed"
                return res
            env = dict(os.environ, PYTHONPATH=f"{wt}/src", PYTHONDONTWRITEBYTECODE="1", PYTHONHASHSEED="0")
            rc, out = sh(["/venv/bin/python", "-m", "pytest", "-q", "-x", "-p", "no:cacheprovider", "tests",
                          "plugins/fcp_dbc", "plugins/fcp_nop"], cwd=wt, env=env, timeout=600)
            if rc != 0:
                res["status"] = "killed_by_tests"
                return res
            env2 = dict(os.environ, VERIF_REPO=wt, PYTHONPATH=f"{wt}/src", VERIF_NO_EVIDENCE="1",
                        VERIF_BUDGET_SCALE=scale)
            for cid in CHECKS.get(m["file"], []):
                rc, out = sh([os.path.join(HERE, "check"), cid, tier, "--shards", shards], env=env2, timeout=3600)
                res["ran"].append([cid, rc])
                if rc == 1 and "VIOLATION property=" in out:
                    res["status"] = "killed"
                    res["by"] = cid
                    msg = [l for l in out.splitlines() if l.startswith("  ")]
                    res["message"] = (msg[0] if msg else "")[:300]
                    return res
                if rc != 0:
                    tail = [l for l in out.splitlines() if l.strip()][-1:] or [""]
                    res["harness_errors"].append([cid, rc, tail[0][:200]])
            res["status"] = "survived"
            return res
        finally:
            res["wall_s"] = round(time.time() - t0, 1)
            sh(["git", "-C", wt, "checkout", "-q", "--", "."])
            wts.put(wt)
            outf.write(json.dumps(res) + "\n")
            outf.flush()

    try:
        with ThreadPoolExecutor(max_workers=jobs) as ex:
            list(ex.map(one, todo))
    finally:
        for wt in made:
            sh(["git", "-C", REPO, "worktree", "remove", "--force", wt])
    return 0


if __name__ == "__main__":
    sys.exit(main())
