#!/bin/sh
# Offline setup: make sure hypothesis is importable in /venv (no-op when present) and
# install atheris beside it for the C11 fuzz campaign (optional; the campaign is skipped
# with a note in the evidence when it cannot be imported).
cd "$(dirname "$0")/.." || exit 1
export PIP_NO_INDEX=1
/venv/bin/python -c "import hypothesis" 2>/dev/null || \
  /venv/bin/pip install --no-index --find-links /opt/veriftools/wheels hypothesis || exit 1
mkdir -p .deps
/venv/bin/python -c "import sys; sys.path.insert(0, '.deps'); import atheris" 2>/dev/null || \
  /venv/bin/pip install --no-index --find-links /opt/veriftools/wheels --target .deps atheris >/dev/null 2>&1 || \
  echo "note: atheris not installable; C11 thorough runs without the coverage-guided campaign"
exit 0
