#!/venv/bin/python
"""usage: [SEED_SUFFIX=b] tools/seed_keep.py <ID> <src dir> <eval log> "<caught by>" ["<note>"]
Copies a confirmed seeded change into /verif/seeded/<ID>/ with meta.json."""
import json, os, re, shutil, sys

HERE = os.path.dirname(os.path.dirname(os.path.abspath(__file__)))
pid, src, log, caught = sys.argv[1:5]
note = sys.argv[5] if len(sys.argv) > 5 else ""
suffix = os.environ.get("SEED_SUFFIX", "")
dst = os.path.join(HERE, "seeded", pid + suffix)
os.makedirs(dst, exist_ok=True)
for f in ("patch.diff", "demo.py", "demo.sh", "notes.md"):
    if os.path.exists(os.path.join(src, f)):
        shutil.copy(os.path.join(src, f), os.path.join(dst, f))
notes = open(os.path.join(src, "notes.md")).read() if os.path.exists(os.path.join(src, "notes.md")) else ""
text = open(log).read()
tests = re.search(r"(\d+) passed", text)
exits = re.findall(r"exit=(\d+) \(want", text)
prop = [json.loads(l) for l in open(os.path.join(HERE, "properties.jsonl")) if json.loads(l)["id"] == pid][0]
meta = {
    "property": pid,
    "title": prop["title"],
    "origin": "independent sub-agent given only the property text and a private scratch worktree",
    "what_it_needs_to_manifest": notes.strip(),
    "confirmed": {
        "how": "tools/seed_eval.sh in a fresh scratch worktree of /repo HEAD (never in /repo)",
        "baseline_tests_with_change": f"{tests.group(1)} passed" if tests else "see log",
        "demo_exit_unchanged_tree": int(exits[0]) if exits else None,
        "demo_exit_changed_tree": int(exits[1]) if len(exits) > 1 else None,
    },
    "checks_run": caught,
    "note": note,
}
json.dump(meta, open(os.path.join(dst, "meta.json"), "w"), indent=1)
print("kept", dst)
