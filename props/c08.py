"""C08 — accepted schemas have no dangling or mis-kinded type references."""

from __future__ import annotations

import copy
import os
from typing import Any, Dict, List, Optional, Tuple

from hypothesis import strategies as st

from vlib import model as M
from vlib import modules as MO
from vlib import strategies as S
from vlib.runner import Ctx, HarnessError, Violation, hyp_run, pickle_b64, unpickle_b64

LEVEL = "exploration"
OWNS_PARSING = True
RULE = (
    "Hypothesis-generated module trees (depth <= 2) of structs/enums whose type names come from the plain pool and from "
    "names that begin like a builtin (u8x, i2c, strx ...); in 60% of cases one reference — at any depth inside arrays/"
    "optionals/dynamic arrays of a chosen field of a chosen struct in a chosen file — is replaced by a reference that is "
    "self, forward (declared later in the same file or in a module imported later), undeclared, only declared in the "
    "importing parent, or the name of something that is not a type (binding alias, service, device, enumerator, field). Oracle (a) accepted => every user-type leaf of every field resolves through FcpV2.get_type to a "
    "declaration of the same name, declared before the using struct (inlined order), whose kind equals the leaf's tag and "
    "the description's kind; (b) a bad reference => Err (never Ok, never an exception) whose rendered diagnostic contains "
    "the type name and the enclosing struct's name. Non-trivial = reference under >= 1 container, or across a module, or a "
    "negative case; distinct by sha1(file map)."
)
ASSUMPTIONS = [
    "type names are globally unique (duplicate names are the verifier's business, C09)",
    "a module sees only its own declarations and its own imports",
]
FLOORS = {
    "negative": 0.25,
    "positive": 0.15,
    "ref_under_container": 0.10,
    "cross_module": 0.04,
    "tricky_ident": 0.05,
    "neg_self": 0.02,
    "neg_forward": 0.02,
    "neg_undeclared": 0.02,
    "neg_parent_scope": 0.01,
    "neg_other_decl_name": 0.02,
}

KINDS = ["self", "forward", "undeclared", "parent_scope", "other_decl_name", "other_decl_name"]


def _files(tree: M.Schema) -> List[Tuple[str, M.Schema, int]]:
    return [("main.fcp", tree, 0)] + MO.module_files(tree)


def _wrap(draw: Any, t: M.Type) -> M.Type:
    for _ in range(draw(st.integers(0, 3))):
        k = draw(st.integers(0, 2))
        t = M.Arr(t, draw(st.integers(1, 3))) if k == 0 else (M.Dyn(t) if k == 1 else M.Opt(t))
    return t


def inlined_order(tree: M.Schema) -> List[str]:
    return [d.name for d in tree.inlined().decls if isinstance(d, (M.Struct, M.Enum))]


def visible_before(tree: M.Schema, target: M.Schema, struct_name: str) -> Optional[List[str]]:
    """Type names visible (declared/imported earlier in the same file) to `struct_name` of file `target`."""
    out: List[str] = []
    for d in target.decls:
        if isinstance(d, M.Struct) and d.name == struct_name:
            return out
        if isinstance(d, (M.Struct, M.Enum)):
            out.append(d.name)
        if isinstance(d, M.Mod) and d.schema is not None:
            out += inlined_order(d.schema)
    return None


@st.composite
def case(draw):
    tn = st.one_of(S.pascal_ident, S.pascal_ident, st.sampled_from(S.TRICKY_DECL_NAMES))
    cfg = S.SchemaCfg(types=S.TypeCfg(depth=3), max_fields=3, enum_max_bits=16)
    tree = draw(MO.module_tree(2, True, cfg, tn))
    neg = None
    files = _files(tree)
    cands = [(i, s_.name) for i, (_p, sch, _d) in enumerate(files) for s_ in sch.structs]
    if cands and draw(st.integers(0, 9)) < 6:
        fi, sname = draw(st.sampled_from(cands))
        kind = draw(st.sampled_from(KINDS))
        target = files[fi][1]
        vis = visible_before(tree, target, sname) or []
        allnames = inlined_order(tree)
        if kind == "self":
            bad = sname
        elif kind == "undeclared":
            bad = draw(S.pascal_ident.filter(lambda x: x not in allnames) | st.sampled_from(["u8q", "i2cq", "strq"]))
        elif kind == "other_decl_name":
            # a name that exists, but names something that is not a type: a binding alias, a service, a device, an
            # enumerator or a field
            inl = tree.inlined()
            pool = [i.name for i in inl.impls if i.name is not None] + [x.name for x in inl.services] + [x.name for x in inl.devices]
            pool += [n for e in inl.enums for n, _v in e.items] + [f.name for s_ in inl.structs for f in s_.fields]
            pool = [n for n in pool if n not in allnames and not S._BUILTIN_EXACT.match(n) and n not in S.KEYWORDS]
            if pool:
                bad = draw(st.sampled_from(pool))
            else:
                bad = draw(S.pascal_ident.filter(lambda x: x not in allnames))
                kind = "undeclared"
        elif kind == "forward":
            pool = [n for n in allnames if n not in vis and n != sname]
            # forward must not be something a *parent* declared earlier (that is parent_scope); both are errors anyway
            bad = draw(st.sampled_from(pool)) if pool else sname
            if not pool:
                kind = "self"
        else:  # parent_scope: declared somewhere else in the tree, not visible here
            pool = [n for n in allnames if n not in vis and n != sname]
            if fi == 0 or not pool:
                bad = draw(S.pascal_ident.filter(lambda x: x not in allnames))
                kind = "undeclared"
            else:
                bad = draw(st.sampled_from(pool))
        st_ = target.struct(sname)
        fidx = draw(st.integers(0, len(st_.fields) - 1))
        newt = _wrap(draw, M.StructRef(bad))
        neg = (kind, fi, sname, fidx, newt, bad)
    return tree, neg


def apply_neg(tree: M.Schema, neg: Any) -> M.Schema:
    tree = copy.deepcopy(tree)
    kind, fi, sname, fidx, newt, bad = neg
    target = _files(tree)[fi][1]
    target.struct(sname).fields[fidx].type = newt
    return tree


def leaf_of(t: Any) -> Any:
    while hasattr(t, "underlying_type"):
        t = t.underlying_type
    return t


def check(tree: M.Schema, neg: Any) -> Optional[str]:
    from fcp.specs.enum import Enum as FEnum
    from fcp.specs.struct import Struct as FStruct
    from fcp.specs.type import EnumType, StructType

    t2 = apply_neg(tree, neg) if neg else tree
    files = MO.files_of(t2)
    with MO.Scratch("verif-c08-") as sc:
        sc.write(files)
        kind, res, logger = MO.get_fcp_logged(sc.path("main.fcp"))
    if neg:
        nk, _fi, sname, _fidx, _t, bad = neg
        if kind == "exc":
            return f"(b) {nk} reference to '{bad}' in struct {sname}: exception {type(res).__name__}: {res}"[:500]
        if kind == "ok":
            return f"(b) {nk} reference to '{bad}' in struct {sname}: schema accepted"
        diag, rexc = MO.render(logger, res)
        if rexc:
            return f"(b) error cannot be rendered: {rexc}"
        if bad not in diag or sname not in diag:
            return f"(b) diagnostic does not name type '{bad}' and struct '{sname}': {diag[:400]}"
        return None
    if kind != "ok":
        return f"(a) well-formed tree not accepted ({kind}: {res!r})"[:500]
    fcp = res
    inl = tree.inlined()
    order = [d.name for d in inl.decls if isinstance(d, (M.Struct, M.Enum))]
    kinds = {d.name: ("Struct" if isinstance(d, M.Struct) else "Enum") for d in inl.decls
             if isinstance(d, (M.Struct, M.Enum))}
    if [s_.name for s_ in fcp.structs] != [s_.name for s_ in inl.structs]:
        return f"(a) structs {[s_.name for s_ in fcp.structs]} != declared {[s_.name for s_ in inl.structs]}"
    for st_real, st_m in zip(fcp.structs, inl.structs):
        if [f.name for f in st_real.fields] != [f.name for f in st_m.fields]:
            return f"(a) fields of {st_m.name} differ"
        for f_real, f_m in zip(st_real.fields, st_m.fields):
            leaf_m = M.type_leaf(f_m.type)
            leaf_r = leaf_of(f_real.type)
            if isinstance(leaf_m, (M.StructRef, M.EnumRef)):
                if not isinstance(leaf_r, (StructType, EnumType)):
                    return f"(a) {st_m.name}.{f_m.name}: reference to {leaf_m.name} parsed as {leaf_r!r}"
                if leaf_r.name != leaf_m.name:
                    return f"(a) {st_m.name}.{f_m.name}: reference to {leaf_m.name} parsed as {leaf_r.name}"
                want_kind = kinds[leaf_m.name]
                if leaf_r.type != want_kind or isinstance(leaf_r, StructType) != (want_kind == "Struct"):
                    return f"(a) {st_m.name}.{f_m.name}: {leaf_m.name} is a {want_kind} but tagged {leaf_r.type}"
                got = fcp.get_type(leaf_r)
                if got.is_nothing():
                    return f"(a) {st_m.name}.{f_m.name}: get_type({leaf_m.name}) is Nothing (dangling)"
                node = got.unwrap()
                if node.name != leaf_m.name or isinstance(node, FStruct) != (want_kind == "Struct") or not isinstance(node, (FStruct, FEnum)):
                    return f"(a) {st_m.name}.{f_m.name}: get_type({leaf_m.name}) returned {type(node).__name__} {node.name}"
                n_decl = sum(1 for x in fcp.structs + fcp.enums if x.name == leaf_m.name)
                if n_decl != 1:
                    return f"(a) {leaf_m.name} resolves to {n_decl} declarations"
                if order.index(leaf_m.name) >= order.index(st_m.name):
                    return f"(a) {st_m.name} uses {leaf_m.name} before its declaration"
            else:
                if isinstance(leaf_r, (StructType, EnumType)):
                    return f"(a) {st_m.name}.{f_m.name}: builtin {M.type_text(leaf_m)} parsed as reference {leaf_r.name}"
    return None


def classes_of(tree: M.Schema, neg: Any) -> List[str]:
    cl = ["negative" if neg else "positive"]
    inl = tree.inlined()
    if neg:
        cl.append("neg_" + neg[0])
        if M.type_depth(neg[4]) >= 1:
            cl.append("ref_under_container")
        if neg[1] > 0:
            cl.append("neg_in_module")
    else:
        fields = [f for s_ in inl.structs for f in s_.fields]
        if any(M.type_depth(f.type) >= 1 and isinstance(M.type_leaf(f.type), (M.StructRef, M.EnumRef)) for f in fields):
            cl.append("ref_under_container")
    files = _files(tree)
    if len(files) > 1:
        # a reference in some file to a type declared in another file
        for _p, sch, _d in files:
            own = {d.name for d in sch.decls if isinstance(d, (M.Struct, M.Enum))}
            for s_ in sch.structs:
                for f in s_.fields:
                    lf = M.type_leaf(f.type)
                    if isinstance(lf, (M.StructRef, M.EnumRef)) and lf.name not in own:
                        cl.append("cross_module")
                        break
    if any(S.is_tricky(d.name) for d in inl.decls if isinstance(d, (M.Struct, M.Enum))):
        cl.append("tricky_ident")
    return sorted(set(cl))


def run_shard(ctx: Ctx) -> None:
    rec = ctx.rec

    def body(c: Any) -> None:
        tree, neg = c
        cl = classes_of(tree, neg)
        rec.eval()
        rec.cls(*cl)
        files = MO.files_of(apply_neg(tree, neg) if neg else tree)
        if set(cl) & {"ref_under_container", "cross_module", "negative"}:
            rec.nt(files)
            rec.sample({"files": files, "negative": [neg[0], neg[2], neg[5]] if neg else None})
        msg = check(tree, neg)
        if msg:
            raise Violation(msg, {"tree_pickle": pickle_b64(tree), "neg_pickle": pickle_b64(neg), "files": files})

    hyp_run(ctx, case(), body, ctx.n(4000, 40000))
    # module trees edited in place and re-loaded by the same process: a type that an edit removed (or turned from enum
    # into struct) must not stay resolvable (or keep its old kind) for the modules that were not touched
    from props import c20

    c20.run_sessions(ctx, 240, 4000)


def replay(c: Dict[str, Any]) -> Optional[str]:
    if c.get("kind") == "session":
        from props import c20

        return c20.check_session(unpickle_b64(c["tree_pickle"]), [tuple(x) for x in c["steps"]])
    return check(unpickle_b64(c["tree_pickle"]), unpickle_b64(c["neg_pickle"]))
