"""C01 — Python codec round-trip: decode(encode(v)) == v."""

from __future__ import annotations

from typing import Any, Dict, Optional

from vlib import codec_common as CC
from vlib import frontend, refcodec
from vlib.runner import Ctx, HarnessError, Violation, hyp_run, pickle_b64, unpickle_b64

LEVEL = "exploration"
ALSO_UNDER_O = True  # a second, smaller run in an interpreter started with -O
RULE = (
    "Hypothesis-generated schemas (1-6 structs, 0-3 enums, all type constructors, widths 1..64, shuffled "
    "field ids, nesting depth <=3 quick / <=5 thorough) parsed by the real front end; per schema 1-8 "
    "boundary-biased in-range values of one struct; oracle decode(encode(v)) == v structurally with floats "
    "bit-for-bit (NaN as NaN). Non-trivial = the reference annotation of the encoding shows a float/str/"
    "dynamic array/optional starting at a bit offset != 0 mod 8, an enum field, a signed minimum, or a type "
    "of container depth >= 2; distinct by sha1(schema text, struct, value). One case in four is a history: the case, "
    "1-3 same-named edited variants of its schema (other enum maxima, integer widths, field ids, declaration order) "
    "with fresh values, then the original again, each schema object dropped before the next is loaded; one in four "
    "ends with an in-place edit of the loaded schema object (field ids permuted, declarations re-ordered). Between the "
    "checked calls, calls that are expected to fail are made (a value lacking a field, a wrongly typed value, a "
    "truncated message). A second sub-run alternates two same-named revisions for 16-32 load/use/drop cycles, and a "
    "small part of the whole search is repeated in a child interpreter started with -O (python_O_child_run)."
)
ASSUMPTIONS = [
    "enum field values are the enumerator's integer value",
    "strings are 7-bit ASCII; widths 1..64; array sizes >= 1",
    "schemas reach the codec through get_fcp_from_string (plain identifiers only)",
]
FLOORS = {
    "misaligned_float": 0.02,
    "misaligned_str": 0.02,
    "enum": 0.02,
    "signed_min": 0.02,
    "optional_some": 0.02,
    "nested_container": 0.02,
    "after_same_named_variant": 0.03,
}


def preflight() -> None:
    try:
        refcodec.self_test()
    except AssertionError as e:
        raise HarnessError(f"reference codec self-test failed: {e}")


def check_value(fcp: Any, s: Any, name: str, v: Dict[str, Any], known: Any = (), rec: Any = None) -> Optional[str]:
    from fcp import serde

    try:
        enc = serde.encode(fcp, name, v)
    except Exception as e:
        return f"encode raised {type(e).__name__}: {e}"
    try:
        dec = serde.decode(fcp, name, bytearray(enc))
    except Exception as e:
        return f"decode(encode(v)) raised {type(e).__name__}: {e} (encoded {bytes(enc).hex()})"
    v = CC.float_norm(s, CC.M.StructRef(name), v)
    if not refcodec.same_value(dec, v):
        if "PY-SIGNED-MIN" in known and CC.matches_signed_min_finding(s, name, v, dec):
            if rec is not None:
                rec.known("PY-SIGNED-MIN")
            return None
        return f"decode(encode(v)) != v: got {dec!r} (encoded {bytes(enc).hex()})"
    return None


def canaries(fid: str, record: Dict[str, Any]) -> bool:
    """True when the recorded finding still reproduces with its recorded signature."""
    if fid != "PY-SIGNED-MIN":
        raise HarnessError(f"unknown finding id {fid}")
    from vlib import model as M

    s = M.Schema([M.Struct("A", [M.Field("a", 0, M.I(1))])])
    fcp, _t, err = frontend.parse_schema(s)
    if fcp is None:
        raise HarnessError(f"canary schema rejected: {err}")
    return check_value(fcp, s, "A", {"a": -1}) is not None


def run_shard(ctx: Ctx) -> None:
    rec = ctx.rec
    n_values = 8

    def body(steps: Any) -> None:
        import gc

        fcp = None
        for k, step in enumerate(steps):
            s, name, vals = step[:3]
            if len(step) > 3 and step[3] == "inplace":
                if fcp is None:
                    continue
                CC.renumber_in_place(fcp, s)
                text = "(the previous schema object, field ids and declaration order edited in place) " + CC.printer.to_text(s)
                rec.cls("after_in_place_edit")
            else:
                fcp = None
                gc.collect()
                rec.frontend_attempts += 1
                fcp, text, err = frontend.parse_schema(s)
                if fcp is None:
                    rec.rejected_by_frontend += 1
                    if k == 0:
                        return
                    continue
            for j, v in enumerate(vals):
                if (j + len(vals)) % 3 == 0:
                    CC.poison(fcp, s, name, v, j + k)
                    rec.cls("after_failed_call")
                _data, classes, nt = CC.classify(s, name, v)
                rec.eval()
                rec.cls(*classes)
                if k:
                    rec.cls("after_same_named_variant")
                cj = CC.case_json(s, name, v)
                if nt:
                    rec.nt([cj["schema_text"], name, cj["value"]])
                    rec.sample({"schema": text, "struct": name, "value": cj["value"], "classes": classes,
                                "schemas_loaded_before_in_this_history": k})
                msg = check_value(fcp, s, name, v, ctx.known, rec)
                if msg:
                    cj["history_pickle"] = pickle_b64(steps[: k + 1])
                    if k:
                        msg = f"after {k} same-named schema(s) were used in this process: " + msg
                    raise Violation(msg, cj)

    hyp_run(ctx, CC.codec_history(ctx.tier, n_values), body, ctx.n(3000, 24000))

    def body_alt(c: Any) -> None:
        steps, cycles = c
        rec.cls("alternation_history")
        body([steps[i % 2] for i in range(2 * cycles)])

    hyp_run(ctx, CC.codec_alternation(ctx.tier), body_alt, ctx.n(32, 480), tag="alternate", shrink_cap=40)


def replay(case: Dict[str, Any]) -> Optional[str]:
    from vlib.runner import load_known

    if case.get("history_pickle"):
        import gc

        fcp = None
        for hk, hstep in enumerate(unpickle_b64(case["history_pickle"])):
            hs, hname, hvals = hstep[:3]
            if len(hstep) > 3 and hstep[3] == "inplace":
                if fcp is None:
                    continue
                CC.renumber_in_place(fcp, hs)
            else:
                fcp = None
                gc.collect()
                fcp, _t, err = frontend.parse_schema(hs)
                if fcp is None:
                    continue
            for hj, hv in enumerate(hvals):
                if (hj + len(hvals)) % 3 == 0:
                    CC.poison(fcp, hs, hname, hv, hj + hk)
                msg = check_value(fcp, hs, hname, hv, load_known("C01"))
                if msg:
                    return msg
        return None
    s = unpickle_b64(case["schema_pickle"])
    v = unpickle_b64(case["value_pickle"])
    fcp, text, err = frontend.parse_schema(s)
    if fcp is None:
        raise HarnessError(f"front end rejects the replay schema: {err}")
    from vlib.runner import load_known

    return check_value(fcp, s, case["struct"], v, load_known("C01"))
