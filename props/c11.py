"""C11 — the parser is total: every input yields a schema or a renderable error."""

from __future__ import annotations

import copy
import glob
import os
import re
import traceback
from typing import Any, Dict, List, Optional, Tuple

from hypothesis import strategies as st

from vlib import model as M
from vlib import modules as MO
from vlib import printer
from vlib import strategies as S
from vlib.runner import REPO, Ctx, HarnessError, Violation, hyp_run, sha

LEVEL = "exploration"
OWNS_PARSING = True
RULE = (
    "Inputs: (1) random unicode text and latin-1 decoded random bytes, bare and behind a valid preamble; (2) every prefix "
    "(each character position) of generated small valid schemas and of every .fcp file in the repository; (3) token-level "
    "mutations (delete/duplicate/swap/replace-by-pool-token, 1-3 per input) of generated valid schemas; (4) grammar-aware "
    "out-of-domain literals (float/huge/negative ids, string/float/identifier enum values, empty enum, unknown parameter, "
    "wrong parameter arity, integer-literal range, non-string unit, negative/float/zero array size, import of a missing or "
    "garbage module, wrong version); (4b) valid schemas with unusual separators (CR, VT, FF, FS..RS, NEL, U+2028/9, NUL, BOM, "
    "NBSP) inside comments and strings, whole or cut anywhere, also inside a comment; (4c) edit sessions: 2-4 successive "
    "versions of one file at one path parsed with one shared Logger; (5) thorough: atheris coverage-guided campaign. Oracle: (a) the call returns; (b) no "
    "exception escapes get_fcp_from_string/get_fcp and the value is Ok(FcpV2) or Err(FcpError); (c) Logger.error(err) "
    "returns a str; (d) every [<name>.fcp:<line>] citation names a registered source and 1 <= line <= its line count. "
    "Failures are bucketed by (exception type, innermost fcp frame) / oracle clause and the shortest input per bucket is "
    "delta-minimised, so one run lists all root causes. Non-trivial = input contains a valid preamble and is not pure "
    "noise (prefix, mutation or out-of-domain literal); distinct by sha1(text)."
)
ASSUMPTIONS = [
    "inputs are <= 2 KB (termination of the Earley parser is observed, not proved)",
    "citations of Python source files in diagnostics (parser.py:NNN) are not source-line citations",
]
FLOORS = {
    "prefix": 0.15,
    "out_of_domain": 0.05,
    "mutation": 0.05,
    "noise": 0.02,
    "exotic_separator": 0.02,
    "result_err": 0.30,
    "result_ok": 0.02,
}

CITE = re.compile(r"\[([^\[\]:\n]+\.fcp):(-?\d+)\]")

TOKEN_POOL = [
    "struct", "enum", "impl", "for", "as", "signal", "service", "method", "returns", "device", "mod", "version",
    "{", "}", "(", ")", "[", "]", ",", ";", ":", "@", "|", "=", ".", "u8", "i16", "f32", "f64", "str", "Optional",
    "x", "Foo", "0", "1", "-1", "1.5", "1e3", '"s"', '"3"', "unit", "range", "u", "i", "99", "u99", "i0", "u0",
    "/*", "*/", "//", '"', "$", "\\",
]


# --------------------------------------------------------------------------- oracle
def bucket_of_exception(e: BaseException) -> str:
    tb = traceback.extract_tb(e.__traceback__)
    inner = None
    for fr in tb:
        if "/fcp/" in fr.filename.replace("\\", "/"):
            inner = f"{os.path.basename(fr.filename)}:{fr.name}"
    cause = getattr(e, "orig_exc", None)
    extra = f"/{type(cause).__name__}" if cause is not None else ""
    return f"exception:{type(e).__name__}{extra}@{inner}"


def judge(kind: str, res: Any, logger: Any) -> Optional[Tuple[str, str]]:
    """-> (bucket, message) when the property is violated."""
    from fcp.error import FcpError
    from fcp.specs.v2 import FcpV2

    if kind == "exc":
        return bucket_of_exception(res), f"(b) exception escaped: {type(res).__name__}: {str(res)[:200]}"
    if kind == "ok":
        if not isinstance(res, FcpV2):
            return "ok-not-fcp", f"(b) Ok value is {type(res).__name__}, not FcpV2"
        return None
    if not isinstance(res, FcpError):
        return "err-not-fcperror", f"(b) Err value is {type(res).__name__}, not FcpError"
    try:
        diag = logger.error(res)
    except Exception as e:
        return "render:" + bucket_of_exception(e), f"(c) Logger.error raised {type(e).__name__}: {str(e)[:200]}"
    if not isinstance(diag, str):
        return "render-not-str", f"(c) Logger.error returned {type(diag).__name__}"
    for name, line in CITE.findall(diag):
        # files in different directories may share a name: the citation is good when one of the registered
        # sources of that name has the line
        cands = [logger.sources[name]] if name in logger.sources else []
        cands += [src for pth, src in getattr(logger, "sources_by_path", {}).items() if os.path.basename(pth) == name]
        if not cands:
            return "cite-unknown-source", f"(d) diagnostic cites [{name}:{line}] but no such source is registered"
        nlines = max(len(src.split("\n")) for src in cands)
        if not (1 <= int(line) <= nlines):
            return "cite-bad-line", f"(d) diagnostic cites [{name}:{line}] but the source has {nlines} lines"
    return None


def run_text(text: str) -> Tuple[str, Optional[Tuple[str, str]]]:
    kind, res, logger = MO.parse_text_logged(text)
    return kind, judge(kind, res, logger)


def run_files(files: Dict[str, str]) -> Tuple[str, Optional[Tuple[str, str]]]:
    """The way the root file is reached is a function of the file map (so that a replay takes the same way): directly,
    through a symbolic link to the directory, with module files that are symbolic links to differently named files, or
    by a relative path from another working directory."""
    import zlib

    mode = zlib.crc32(repr(sorted(files.items())).encode()) % 4
    with MO.Scratch("verif-c11-") as sc:
        sc.write(files)
        root = sc.path("main.fcp")
        link = None
        cwd = None
        try:
            if mode == 1:
                link = sc.dir + "-lnk"
                os.symlink(sc.dir, link)
                root = os.path.join(link, "main.fcp")
            elif mode == 2:
                for n, rel in enumerate(sorted(files)):
                    pth = sc.path(rel)
                    if rel != "main.fcp" and os.path.isfile(pth):
                        tgt = os.path.join(os.path.dirname(pth), f"real{n}.txt")
                        os.rename(pth, tgt)
                        os.symlink(tgt, pth)
            elif mode == 3:
                cwd = os.getcwd()
                os.chdir(os.path.dirname(sc.dir))
                root = os.path.join(os.path.basename(sc.dir), "main.fcp")
            kind, res, logger = MO.get_fcp_logged(root)
            return kind, judge(kind, res, logger)
        finally:
            if cwd is not None:
                os.chdir(cwd)
            if link is not None:
                os.unlink(link)


# ------------------------------------------------------------------------ generators
def small_cfg() -> S.FullCfg:
    return S.FullCfg(
        data=S.SchemaCfg(types=S.TypeCfg(depth=2), max_enums=1, max_structs=2, max_fields=3, units=True, ranges=True,
                         enum_max_bits=12,
                         type_names=st.one_of(S.pascal_ident, st.sampled_from(S.TRICKY_DECL_NAMES))),
        max_impls=1, max_services=1, max_devices=1,
    )


TWEAKS = [
    "float_id", "huge_id", "neg_id", "enum_str", "enum_float", "enum_ident", "enum_list", "empty_enum", "unknown_param",
    "unit_noarg", "unit_two", "range_one", "range_int", "range_str", "unit_int", "arr_neg", "arr_float", "arr_zero",
    "arr_huge", "arr_inf", "id_inf", "enum_inf", "range_inf", "svc_float_id", "method_neg_id", "bad_version", "width_0", "width_99", "dup_param", "enum_neg",
    "mod_missing", "mod_garbage", "mod_eof", "mod_dir",
]


@st.composite
def tweaked(draw) -> Tuple[Dict[str, str], List[str]]:
    d = copy.deepcopy(draw(S.full_schema(small_cfg())))
    names = draw(st.lists(st.sampled_from(TWEAKS), min_size=1, max_size=2, unique=True))
    files: Dict[str, str] = {}
    version = "3"
    k = draw(st.integers(0, 10**6))
    structs = d.structs
    enums = d.enums

    def some_field() -> Optional[M.Field]:
        if not structs:
            return None
        st_ = structs[k % len(structs)]
        return st_.fields[(k // 7) % len(st_.fields)]

    for tw in names:
        f = some_field()
        if tw == "float_id" and f:
            f.fid = M.Num("1.5", 1.5)
        elif tw == "huge_id" and f:
            f.fid = M.Num(str(2**70), 2**70)
        elif tw == "neg_id" and f:
            f.fid = M.Num("-3", -3)
        elif tw.startswith("enum_") and enums and enums[k % len(enums)].items:
            e = enums[k % len(enums)]
            v = {"enum_str": "text", "enum_float": 1.5, "enum_ident": M.Ident("Foo"), "enum_list": [1, 2],
                 "enum_neg": -4, "enum_inf": M.Num("-1e999", float("-inf"))}[tw]
            e.items[(k // 3) % len(e.items)] = (e.items[(k // 3) % len(e.items)][0], v)
        elif tw == "empty_enum":
            if enums:
                enums[k % len(enums)].items = []
            else:
                d.decls.append(M.Enum("Emptyq", []))
        elif f and tw in ("unknown_param", "unit_noarg", "unit_two", "range_one", "range_int", "range_str", "unit_int",
                          "dup_param"):
            raw = {
                "unknown_param": [["foo", "(", "1", ")"]],
                "unit_noarg": [["unit", "(", ")"]],
                "unit_two": [["unit", "(", '"a"', ",", '"b"', ")"]],
                "range_one": [["range", "(", "1.0", ")"]],
                "range_int": [["range", "(", "0", ",", "5", ")"]],
                "range_str": [["range", "(", '"a"', ",", '"b"', ")"]],
                "unit_int": [["unit", "(", "5", ")"]],
                "dup_param": [["unit", "(", '"a"', ")"], ["unit", "(", '"b"', ")"]],
            }[tw]
            f.raw_params = (f.raw_params or []) + raw
        elif f and tw in ("arr_neg", "arr_float", "arr_zero", "arr_huge", "arr_inf"):
            n = {"arr_neg": M.Num("-1", -1), "arr_float": M.Num("1.5", 1.5), "arr_zero": 0,
                 "arr_huge": M.Num(str(10**30), 10**30),
                 "arr_inf": M.Num(["1e999", "-1e309", "2E+400"][k % 3], float("inf"))}[tw]
            inner = [M.U(8), M.F32(), M.Str(), M.Arr(M.U(8), 2), M.Opt(M.U(8))][(k // 5) % 5] if tw == "arr_inf" else M.U(8)
            f.type = M.Arr(inner, n)
        elif f and tw == "id_inf":
            f.fid = M.Num("1e999", float("inf"))
        elif tw == "enum_inf" and enums and enums[k % len(enums)].items:
            e = enums[k % len(enums)]
            e.items[0] = (e.items[0][0], M.Num("-1e999", float("-inf")))
        elif f and tw == "range_inf":
            f.raw_params = (f.raw_params or []) + [["range", "(", "1e999", ",", "-1e999", ")"]]
        elif f and tw == "width_0":
            f.type = M.U(0)
        elif f and tw == "width_99":
            f.type = M.I(99)
        elif tw == "svc_float_id" and d.services:
            d.services[0].id = M.Num("2.5", 2.5)
        elif tw == "method_neg_id" and d.services:
            d.services[0].methods[0].id = M.Num("-1", -1)
        elif tw == "bad_version":
            version = ["2", "3.0", "", "three"][k % 4]
        elif tw == "mod_missing":
            d.decls.insert(k % (len(d.decls) + 1), M.Mod(["nosuchmod"]))
        elif tw in ("mod_garbage", "mod_eof", "mod_dir") and not files:
            # also a module called like the importing root file, in another directory
            mpath = [["b"], ["sub", "b"], ["sub", "main"]][k % 3]
            d.decls.insert(k % (len(d.decls) + 1), M.Mod(mpath))
            rel = "/".join(mpath) + ".fcp"
            if tw == "mod_garbage":
                pad = "\n" * (40 + k % 50)
                files[rel] = ['version: "3"\nstruct $', "\x00\x01", 'version: "3"\nenum E { }', 'version: "2"',
                              'version: "3"\nstruct S { a @0: Nope, }', "",
                              'version: "3"' + pad + 'enum E { }\n', 'version: "3"' + pad + 'struct S { a @1.5: u8, }\n',
                              'version: "3"' + pad + 'struct S { a @0: u8 | foo(1), }\n',
                              'version: "3"' + pad + 'struct S { a @0: Nope, }\n'][k % 10]
            elif tw == "mod_eof":
                files[rel] = ['version: "3"\nstruct S { a @0: u8,', 'version: "3"\n\n\nstruct S {\n a @0:', "version:",
                              'version: "3"\nmod'][k % 4]
            else:
                files[rel + "/x"] = ""  # a directory where the module file should be
    files["main.fcp"] = printer.to_text(d, version=version)
    return files, names


@st.composite
def mutated(draw) -> Tuple[str, List[str]]:
    d = draw(S.full_schema(small_cfg()))
    toks = [t for g in printer.tokens(d) for t in g]
    ops = []
    for _ in range(draw(st.integers(1, 3))):
        op = draw(st.sampled_from(["delete", "duplicate", "swap", "replace", "insert"]))
        i = draw(st.integers(0, len(toks) - 1))
        if op == "delete" and len(toks) > 1:
            del toks[i]
        elif op == "duplicate":
            toks.insert(i, toks[i])
        elif op == "swap" and len(toks) > 1:
            j = draw(st.integers(0, len(toks) - 1))
            toks[i], toks[j] = toks[j], toks[i]
        elif op == "replace":
            toks[i] = draw(st.sampled_from(TOKEN_POOL))
        else:
            toks.insert(i, draw(st.sampled_from(TOKEN_POOL)))
        ops.append(op)
    return " ".join(toks), ops


EXOTIC = ["\r", "\x0b", "\x0c", "\x1c", "\x1d", "\x1e", "\x85", "\u2028", "\u2029", "\r\n", "\x00", "\ufeff", "\u00a0"]


@st.composite
def exotic(draw) -> Tuple[str, str]:
    """Valid schema with unusual line/space separators hidden in comments and strings, optionally cut (EOF)."""
    d = draw(S.full_schema(small_cfg()))
    groups = printer.tokens(d)
    flat = [t for g in groups for t in g]
    out = []
    for t in flat:
        k = draw(st.integers(0, 11))
        if k == 0:
            out.append("/*" + draw(st.sampled_from(EXOTIC)) * draw(st.integers(1, 2)) + "*/")
        elif k == 1:
            out.append("//" + draw(st.sampled_from(EXOTIC)) * draw(st.integers(1, 3)) + "\n")
        if t.startswith('"') and len(t) > 2 and draw(st.booleans()):
            t = t[:-1] + draw(st.sampled_from(EXOTIC)) + '"'
        out.append(t)
    text = " ".join(out)
    mode = draw(st.sampled_from(["full", "cut", "cut", "cut_in_comment"]))
    if mode == "cut":
        text = text[: draw(st.integers(0, len(text)))]
    elif mode == "cut_in_comment":
        text = text[: draw(st.integers(0, len(text)))] + draw(st.sampled_from(["/*", "//", "/* "])) + draw(st.sampled_from(EXOTIC)) * draw(st.integers(1, 3)) + draw(st.sampled_from(["*/", "", "\n", "*/\n"]))
    return text[:2048], mode


@st.composite
def edit_session(draw) -> List[str]:
    """2-4 successive versions of one file (an editor / watch-mode session): prefixes, token mutations, valid text."""
    d = draw(S.full_schema(small_cfg()))
    toks = [t for g in printer.tokens(d) for t in g]
    text = printer.to_text(d)
    out = []
    for _ in range(draw(st.integers(2, 4))):
        k = draw(st.integers(0, 5))
        if k >= 4 and out:
            # the previous version re-flowed: the same characters, the same LENGTH, but blanks turned into line breaks
            # (or the other way round) - whatever is remembered about the file by its size is stale now
            prev = out[-1]
            flip = {" ": "\n", "\n": " "} if k == 4 else {" ": "\n"}
            pos = [i for i, ch in enumerate(prev) if ch in flip]
            chosen = set(draw(st.lists(st.sampled_from(pos), max_size=40))) if pos else set()
            if k == 5:
                chosen = set(pos)
            out.append("".join(flip[ch] if i in chosen else ch for i, ch in enumerate(prev)))
        elif k == 0:
            out.append(text[: draw(st.integers(0, len(text)))])
        elif k == 1:
            tt = list(toks)
            i = draw(st.integers(0, len(tt) - 1))
            tt[i] = draw(st.sampled_from(TOKEN_POOL))
            out.append("\n".join(tt))  # one token per line: errors land on late lines
        elif k == 2:
            out.append(text + "\n" * draw(st.integers(0, 30)) + "struct Tail { a @0: Missing" + str(draw(st.integers(0, 9))) + ", }\n")
        else:
            out.append(text)
    return out


def run_session(versions: List[str]) -> Optional[Tuple[str, str]]:
    """Same path, same Logger, changing content: every error must render against the version that produced it."""
    from fcp.error import Logger
    from fcp.parser import get_fcp

    logger = Logger({})
    with MO.Scratch("verif-c11s-") as sc:
        for n, text in enumerate(versions):
            sc.write({"proj/schema.fcp": text})
            try:
                r = get_fcp(sc.path("proj/schema.fcp"), logger)
                kind, res = ("err", r.err()) if r.is_err() else ("ok", r.unwrap())
            except Exception as e:
                kind, res = "exc", e
            bad = judge(kind, res, logger)
            if bad:
                return "session:" + bad[0], f"version {n + 1} of {len(versions)} of the same file, shared Logger: {bad[1]}"
            if kind == "err":
                diag = logger.error(res)
                lines = text.split("\n")
                for name, line in CITE.findall(diag):
                    if name == "schema.fcp" and not (1 <= int(line) <= len(lines)):
                        return "session:cite-stale-line", f"version {n + 1}: cites [schema.fcp:{line}] but this version has {len(lines)} lines"
    return None


noise = st.one_of(
    st.text(max_size=60),
    st.binary(max_size=60).map(lambda b: b.decode("latin-1")),
    st.text(max_size=40).map(lambda t: 'version: "3"\n' + t),
    st.lists(st.sampled_from(TOKEN_POOL), max_size=25).map(lambda l: 'version: "3" ' + " ".join(l)),
    st.lists(st.sampled_from(TOKEN_POOL), max_size=25).map(" ".join),
)


def repo_files() -> List[str]:
    out = []
    for p in sorted(glob.glob(os.path.join(REPO, "**", "*.fcp"), recursive=True)):
        if "/.git/" in p:
            continue
        out.append(p)
    return out


# ----------------------------------------------------------------------- collection
class Buckets:
    def __init__(self) -> None:
        self.best: Dict[str, Tuple[str, Any, str]] = {}  # bucket -> (message, input, kind)

    def add(self, bucket: str, message: str, inp: Any, kind: str) -> None:
        size = len(inp) if isinstance(inp, str) else sum(len(v) for v in inp.values())
        cur = self.best.get(bucket)
        if cur is None or size < (len(cur[1]) if isinstance(cur[1], str) else sum(len(v) for v in cur[1].values())):
            self.best[bucket] = (message, inp, kind)


def minimise_text(text: str, bucket: str, budget: int = 250) -> str:
    """Greedy delta debugging on characters, bounded by `budget` parser runs."""
    n = 2
    runs = 0
    while len(text) >= 2 and runs < budget:
        chunk = max(1, len(text) // n)
        reduced = False
        i = 0
        while i < len(text) and runs < budget:
            cand = text[:i] + text[i + chunk:]
            runs += 1
            _k, bad = run_text(cand)
            if bad and bad[0] == bucket:
                text = cand
                reduced = True
            else:
                i += chunk
        if not reduced:
            if chunk == 1:
                break
            n = min(len(text), n * 2)
    return text


def run_shard(ctx: Ctx) -> None:
    rec = ctx.rec
    buckets = Buckets()

    def account(kind: str, cls: str, text_key: Any, nontrivial: bool, sample: Any) -> None:
        rec.eval()
        rec.cls(cls, "result_" + kind)
        if nontrivial:
            rec.nt(text_key)
            rec.sample(sample)

    def known_or_bucket(bad: Tuple[str, str], inp: Any, kind: str) -> None:
        buckets.add(bad[0], bad[1], inp, kind)

    # (2b) prefixes of the repository's own schemas: files are dealt round-robin to shards
    files = repo_files()
    step = 1 if ctx.tier == "thorough" else 3
    for idx, path in enumerate(files):
        if idx % ctx.nshards != ctx.shard:
            continue
        src = open(path).read()
        if len(src) > 2048:
            continue
        for cut in range(0, len(src) + 1, step if len(src) > 300 else 1):
            t = src[:cut]
            kind, bad = run_text(t)
            account(kind, "prefix", t, cut > 14, {"kind": "repo-prefix", "file": os.path.relpath(path, REPO), "cut": cut})
            rec.cls("repo_prefix")
            if bad:
                known_or_bucket(bad, t, "text")

    def body_prefix(d: M.Schema) -> None:
        text = printer.to_text(d)
        if len(text) > 400:
            text = text[:400]
        for cut in range(len(text) + 1):
            t = text[:cut]
            kind, bad = run_text(t)
            account(kind, "prefix", t, cut > 14, {"kind": "prefix", "text": t})
            if bad:
                known_or_bucket(bad, t, "text")

    def body_mut(c: Any) -> None:
        t, ops = c
        kind, bad = run_text(t[:2048])
        account(kind, "mutation", t, True, {"kind": "mutation", "ops": ops, "text": t})
        if bad:
            known_or_bucket(bad, t[:2048], "text")

    def body_tweak(c: Any) -> None:
        files_, names = c
        if len(files_) == 1:
            kind, bad = run_text(files_["main.fcp"])
        else:
            kind, bad = run_files(files_)
        account(kind, "out_of_domain", files_, True, {"kind": "out-of-domain", "tweaks": names, "files": files_})
        for n in names:
            rec.cls("tweak_" + n)
        if bad:
            known_or_bucket(bad, files_ if len(files_) > 1 else files_["main.fcp"], "files" if len(files_) > 1 else "text")

    def body_noise(t: str) -> None:
        kind, bad = run_text(t)
        account(kind, "noise", t, False, None)
        if bad:
            known_or_bucket(bad, t, "text")

    def body_exotic(c: Any) -> None:
        t, mode = c
        kind, bad = run_text(t)
        account(kind, "exotic_separator", t, True, {"kind": "exotic-separator", "mode": mode, "text": t})
        if bad:
            known_or_bucket(bad, t, "text")

    def body_session(versions: List[str]) -> None:
        bad = run_session(versions)
        account("err" if bad is None else "err", "edit_session", versions, True, {"kind": "edit-session", "versions": versions})
        if bad:
            known_or_bucket(bad, {f"v{i}.fcp": v for i, v in enumerate(versions)}, "session")

    hyp_run(ctx, edit_session(), body_session, ctx.n(800, 12000), tag="session")
    hyp_run(ctx, exotic(), body_exotic, ctx.n(2000, 50000), tag="exotic")
    hyp_run(ctx, S.full_schema(small_cfg()), body_prefix, ctx.n(64, 1600), tag="prefix")
    hyp_run(ctx, mutated(), body_mut, ctx.n(4000, 80000), tag="mut")
    hyp_run(ctx, tweaked(), body_tweak, ctx.n(4000, 80000), tag="tweak")
    hyp_run(ctx, noise, body_noise, ctx.n(1500, 30000), tag="noise")

    if ctx.tier == "thorough" and ctx.shard < 4:
        from props import c11_fuzz

        found = c11_fuzz.campaign(ctx, runs=c11_fuzz.RUNS_PER_SHARD, empty_corpus=(ctx.shard % 2 == 0))
        for t in found:
            kind, bad = run_text(t)
            account(kind, "fuzz_crash_replay", t, True, {"kind": "atheris-crash", "text": t})
            if bad:
                known_or_bucket(bad, t, "text")

    for bucket, (message, inp, kind) in sorted(buckets.best.items()):
        if kind == "text":
            inp = minimise_text(inp, bucket)
            _k, bad = run_text(inp)
            if bad:
                message = bad[1]
        rec.violations.append({
            "message": f"[{bucket}] {message}",
            "case": {"bucket": bucket, "kind": kind, "input": inp},
            "seed": ctx.base_seed,
            "shard": ctx.shard,
        })


def dedup_key(c: Dict[str, Any]) -> str:
    return c.get("bucket", sha(c))


def replay(c: Dict[str, Any]) -> Optional[str]:
    if c["kind"] == "session":
        bad = run_session([c["input"][k] for k in sorted(c["input"])])
        return f"[{bad[0]}] {bad[1]}" if bad else None
    if c["kind"] == "text":
        _k, bad = run_text(c["input"])
    else:
        _k, bad = run_files(c["input"])
    return f"[{bad[0]}] {bad[1]}" if bad else None
