"""C19 — generated C message scheduler honours periods over every call history."""

from __future__ import annotations

import math
from typing import Any, Dict, List, Optional, Tuple

from hypothesis import strategies as st

from props import c06
from vlib import c_harness as CH
from vlib import canstrat as CS
from vlib import cbuild, frontend, printer, reflayout
from vlib import model as M
from vlib import strategies as S
from vlib.runner import Ctx, HarnessError, Violation, hyp_run, pickle_b64, unpickle_b64

LEVEL = "exploration"
RULE = (
    "Programs = generated flat CAN schemas with 1-3 devices x 1-4 messages, each message with period in {absent (-1), "
    "1..50}; per program 6 (quick) / 20 (thorough) generated call histories of up to 40 steps, each run in a fresh process "
    "of the compiled driver (function-static scheduler state starts at zero): steps are advance(device, delta) with delta "
    "from {0, 1, P-1, P, P+1, 2P, large, jump to just below 2^32 (wrap-around), jump to 2^32-1, advance by 2^32-1} applied to a 32-bit wrapping clock, and "
    "set(message, value). Oracle = 10-line reference automaton from the statement: on a call with time t != previous call's "
    "time (initially 0), message m with period P != -1 is sent iff (t - last_send[m]) mod 2^32 >= P, then last_send[m] = t; "
    "after every step the frames handed to the callback must be exactly the expected messages in order and each frame the "
    "reference encoding (id, dlc, layout packing) of the device's current value. Non-trivial = history with a repeated "
    "timestamp, a gap >= 2P, or a wrap; distinct by sha1(schema text, history)."
)
ASSUMPTIONS = [
    "timestamps are non-decreasing modulo 2^32; the first call is compared with an implicit previous timestamp 0",
    "one process per history; both devices of a program may be interleaved in one history",
]
FLOORS = {"repeated_timestamp": 0.2, "gap_ge_2p": 0.2, "wrap": 0.1, "no_period_message": 0.12, "set_value": 0.3}


@st.composite
def case(draw, n_hist: int):
    s, vals = draw(c06.program(4, periods=True))
    msgs = CH.can_messages(s)
    devs = CH.devices(s)
    periods = [M.plain_value(im.get("period", -1)) for im in msgs]
    pool = sorted({p for p in periods if p != -1} | {1})
    hists = []
    for _ in range(n_hist):
        steps = []
        n = draw(st.integers(1, 40))
        for _ in range(n):
            k = draw(st.integers(0, 9))
            if k <= 6:
                p = draw(st.sampled_from(pool))
                delta = draw(st.sampled_from([0, 0, 1, 1, max(p - 1, 0), p, p + 1, 2 * p, 3 * p + 1, 1000, 2**31, "wrap", "wrap",
                                              "max", "cycle_minus_1"]))
                steps.append(("T", draw(st.integers(0, len(devs) - 1)), delta))
            else:
                mi = draw(st.integers(0, len(msgs) - 1))
                steps.append(("V", mi, draw(st.integers(0, len(vals[msgs[mi].eff_name]) - 1))))
        hists.append(steps)
    return s, vals, hists


def simulate(s: M.Schema, vals: Dict[str, List[Dict[str, Any]]], steps: List[Tuple[str, int, Any]]):
    """-> (driver lines, expected answer blocks, class set)."""
    msgs = CH.can_messages(s)
    devs = CH.devices(s)
    by_dev: Dict[str, List[int]] = {d: [] for d in devs}
    for k, im in enumerate(msgs):
        by_dev[CH.device_of(im)].append(k)
    periods = [M.plain_value(im.get("period", -1)) for im in msgs]
    layouts = [reflayout.layout(s, im.type, True) for im in msgs]
    zero = [{lf.name: (0.0 if isinstance(lf.type, (M.F32, M.F64)) else 0) for lf in leaves} for leaves in layouts]
    cur = [dict(z) for z in zero]
    last_call = {d: 0 for d in devs}
    last_send = {k: 0 for k in range(len(msgs))}
    time = 0
    lines: List[str] = []
    expect: List[List[str]] = []
    classes = set()
    for op, a, b in steps:
        if op == "V":
            v = vals[msgs[a].eff_name][b]
            cur[a] = v
            lines.append(f"V {a} " + " ".join(CH.raw_args(s, layouts[a], v)))
            expect.append(["V"])
            classes.add("set_value")
            continue
        if b == "wrap":
            new = (2**32 - 3) if time < 2**32 - 3 else (time + 5) % 2**32
        elif b == "max":
            new = 2**32 - 1  # the largest timestamp, one tick before the wrap
        elif b == "cycle_minus_1":
            new = (time - 1) % 2**32  # advance by 2^32 - 1: elapsed time since "now" becomes 0xFFFFFFFF
        else:
            new = (time + b) % 2**32
        if new < time:
            classes.add("wrap")
        time = new
        d = devs[a]
        block = []
        if time == last_call[d]:
            classes.add("repeated_timestamp")
        else:
            last_call[d] = time
            for k in by_dev[d]:
                P = periods[k]
                if P == -1:
                    classes.add("no_period_message")
                    continue
                el = (time - last_send[k]) % 2**32
                if el >= 2 * P:
                    classes.add("gap_ge_2p")
                if el >= P:
                    leaves = layouts[k]
                    data = reflayout.pack(s, leaves, cur[k]).to_bytes(8, "little").hex()
                    dlc = math.ceil(reflayout.total_bits(leaves) / 8)
                    block.append(f"F {M.plain_value(msgs[k].get('id'))} {dlc} {data}")
                    last_send[k] = time
        block.append("T")
        lines.append(f"T {a} {time:x}")
        expect.append(block)
    return lines, expect, classes


def check_case(s: M.Schema, vals: Any, hists: Any, rec: Any = None, text: str = "") -> Optional[str]:
    fcp, _t, err = frontend.parse_schema(s)
    if fcp is None:
        return "__frontend__"
    with cbuild.BuildDir("verif-c19-") as bd:
        exe, msg = c06.build(s, fcp, bd, with_scheduler=True)
        if exe is None:
            return msg
        for hi, steps in enumerate(hists):
            lines, expect, classes = simulate(s, vals, steps)
            rc, out, errtail = cbuild.run_lines(exe, lines)
            out = [l for l in out if l.strip()]
            if rec is not None:
                rec.eval()
                rec.cls(*sorted(classes))
                if classes & {"repeated_timestamp", "gap_ge_2p", "wrap"}:
                    rec.nt([text, lines])
                    rec.sample({"schema": text, "history": lines[:12], "classes": sorted(classes)})
            flat = [x for b in expect for x in b]
            if rc != 0:
                return f"history {hi}: driver exited with {rc}: {errtail[-200:]}"
            if out != flat:
                # locate the first differing step
                pos = 0
                for si, b in enumerate(expect):
                    got = out[pos:pos + len(b)]
                    if got != b:
                        # find the real extent of this step's answer (up to its terminator)
                        end = pos
                        while end < len(out) and out[end] not in ("T", "V"):
                            end += 1
                        return (f"history {hi} step {si} `{lines[si]}`: scheduler sent {out[pos:end]} but the reference "
                                f"automaton expects {b[:-1]} (history so far: {lines[:si + 1][-8:]})")
                    pos += len(b)
                return f"history {hi}: extra output {out[pos:pos + 3]}"
    return None


def run_shard(ctx: Ctx) -> None:
    rec = ctx.rec

    def body(c: Any) -> None:
        s, vals, hists = c
        rec.frontend_attempts += 1
        text = printer.to_text(s)
        msg = check_case(s, vals, hists, rec, text)
        if msg == "__frontend__":
            rec.rejected_by_frontend += 1
            return
        rec.cls("program")
        if msg:
            raise Violation(msg, {"schema_text": text, "pickle": pickle_b64((s, vals, hists))})

    hyp_run(ctx, case(ctx.pick(6, 20)), body, ctx.n(960, 3000), shrink_cap=60)


def replay(c: Dict[str, Any]) -> Optional[str]:
    s, vals, hists = unpickle_b64(c["pickle"])
    msg = check_case(s, vals, hists)
    if msg == "__frontend__":
        raise HarnessError("front end rejects the replay schema")
    return msg
