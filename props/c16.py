"""C16 — Python decoder detects truncated input instead of fabricating values."""

from __future__ import annotations

from typing import Any, Dict, List, Optional, Tuple

from vlib import codec_common as CC
from vlib import frontend, refcodec
from vlib.runner import Ctx, HarnessError, Violation, hyp_run, unpickle_b64

LEVEL = "exploration"
ALSO_UNDER_O = True  # a second, smaller run in an interpreter started with -O
RULE = (
    "C01 schemas/values; for each canonical encoding b (reference encoder): every strict prefix b[:k] (all k when "
    "len(b) <= 48, else 48 evenly spaced cut points (12 plus the last three bytes beyond 1 KiB) plus cuts directly after "
    "a length prefix), and "
    "every length prefix overwritten with count+1, count+1000, 2^31, 2^32-1 with the payload kept or removed; plus an "
    "enumeration of block-length (256/4096/8192) strings and byte arrays as last item at every bit offset 0..7, cut by "
    "their last 1-3 bytes. Oracle: "
    "(a) whenever the reference decoder runs out of bits (always for strict prefixes) serde.decode must raise; returning "
    "a value is the violation; (b) deterministic work bound: calls of _Buffer.get_bit/_decode and iterations of "
    "every range() loop in fcp.serde must stay <= 64*(8*len(input)+schema nodes+64). Non-trivial = cut inside a string "
    "payload, inside a float, inside a container element, or directly after a length prefix, or a corrupted prefix; "
    "distinct by sha1(schema, struct, mutated bytes)."
)
ASSUMPTIONS = [
    "valid encodings are the reference (canonical) encodings; C02 ties them to serde.encode",
    "element types are at least 1 bit wide (no empty structs), so a missing element is always detectable",
    "the work bound is counted in interpreter-level steps of fcp.serde (get_bit, _decode, range iterations), not time",
]
FLOORS = {
    "cut_in_str": 0.01,
    "cut_in_float": 0.01,
    "cut_in_container_elem": 0.02,
    "cut_after_prefix": 0.005,
    "corrupt_prefix": 0.05,
}


class BudgetExceeded(BaseException):
    pass


class _Meter:
    def __init__(self) -> None:
        self.steps = 0
        self.budget = 0

    def tick(self, n: int = 1) -> None:
        self.steps += n
        if self.steps > self.budget:
            raise BudgetExceeded()


_METER = _Meter()
_INSTALLED = False


def install_meter() -> None:
    """Wrap fcp.serde from outside (no source hook)."""
    global _INSTALLED
    if _INSTALLED:
        return
    from fcp import serde

    orig_get_bit = serde._Buffer.get_bit
    orig_decode = serde._decode

    def get_bit(self: Any, bitaddr: int) -> int:
        _METER.tick()
        return orig_get_bit(self, bitaddr)

    def _decode(buffer: Any, fcp: Any, type: Any) -> Any:
        _METER.tick()
        return orig_decode(buffer, fcp, type)

    def counted_range(*a: int) -> Any:
        for i in range(*a):
            _METER.tick()
            yield i

    serde._Buffer.get_bit = get_bit
    serde._decode = _decode
    serde.range = counted_range  # shadows the builtin inside fcp.serde only
    _INSTALLED = True


def preflight() -> None:
    try:
        refcodec.self_test()
    except AssertionError as e:
        raise HarnessError(f"reference codec self-test failed: {e}")


def schema_nodes(s: Any) -> int:
    return sum(1 + len(st.fields) for st in s.structs) + len(s.enums)


def decode_metered(fcp: Any, name: str, data: bytes, nodes: int) -> Tuple[str, Any]:
    """-> ('raised', exc) | ('value', v) | ('budget', steps)."""
    from fcp import serde

    install_meter()
    _METER.steps = 0
    _METER.budget = 64 * (8 * len(data) + nodes + 64)
    try:
        v = serde.decode(fcp, name, bytearray(data))
    except BudgetExceeded:
        return "budget", _METER.steps
    except Exception as e:
        return "raised", e
    finally:
        _METER.budget = 1 << 62
    return "value", v


def mutations(s: Any, name: str, v: Any) -> List[Tuple[str, bytes, List[str]]]:
    """-> [(description, bytes, classes)] of inputs that must be rejected when the reference says so."""
    data, ann = refcodec.encode_annotated(s, name, v)
    out: List[Tuple[str, bytes, List[str]]] = []
    n = len(data)
    after_prefix = {(off + w) // 8 for kind, _p, off, w in ann if kind.startswith("len_") and (off + w) % 8 == 0}
    if n <= 48:
        cuts = list(range(n))
    elif n <= 1024:
        cuts = sorted(set(round(i * (n - 1) / 47) for i in range(48)) | {k for k in after_prefix if k < n})
    else:
        # long encodings: 12 evenly spaced cuts, the last three bytes, and every cut right after a length prefix
        cuts = sorted(set(round(i * (n - 1) / 11) for i in range(12)) | {n - 1, n - 2, n - 3}
                      | {k for k in list(after_prefix)[:8] if k < n})
    for k in cuts:
        bit = 8 * k
        cl = ["prefix"]
        for kind, path, off, w in ann:
            if off <= bit < off + w:  # the first missing bit belongs to this leaf
                if kind == "char":
                    cl.append("cut_in_str")
                if kind in ("f32", "f64"):
                    cl.append("cut_in_float")
                if "[" in path:
                    cl.append("cut_in_container_elem")
        if k in after_prefix:
            cl.append("cut_after_prefix")
        out.append((f"prefix[:{k}] of {n}", data[:k], sorted(set(cl))))
    word = int.from_bytes(data, "little")
    for kind, path, off, w in ann:
        if not kind.startswith("len_"):
            continue
        count = (word >> off) & 0xFFFFFFFF
        for new in sorted({count + 1, count + 1000, 1 << 31, (1 << 32) - 1}):
            if new > 0xFFFFFFFF or new <= count:
                continue
            w2 = (word & ~(0xFFFFFFFF << off)) | (new << off)
            kept = w2.to_bytes(n, "little")
            out.append((f"{kind} {path}@{off}: {count}->{new}, payload kept", kept, ["corrupt_prefix"]))
            cutn = (off + 32 + 7) // 8
            out.append((f"{kind} {path}@{off}: {count}->{new}, payload removed", kept[:cutn], ["corrupt_prefix", "huge_count_no_data"]))
    return out


def check_one(fcp: Any, s: Any, name: str, data: bytes, nodes: int) -> Tuple[Optional[str], bool]:
    """-> (violation message | None, reference says truncated?)"""
    try:
        refcodec.decode(s, name, data)
        must_fail = False
    except refcodec.Truncated:
        must_fail = True
    except UnicodeDecodeError:
        must_fail = False  # corrupted text bytes: the input is malformed for another reason, no claim about truncation
    kind, res = decode_metered(fcp, name, data, nodes)
    if kind == "budget":
        return f"(b) decoding {len(data)} bytes exceeded the work bound ({res} steps)", must_fail
    if must_fail and kind == "value":
        return f"(a) decode returned {res!r} from a byte string shorter than its value", must_fail
    return None, must_fail


def directed_block_tails(ctx: Ctx) -> None:
    """Enumerated: a block-length (256 / 4096 / 8192) string or byte array as the last item of the encoding, at every
    bit offset 0..7, cut by its last 1-3 bytes and right after its length prefix."""
    from vlib import model as M

    rec = ctx.rec
    jobs = [(k, n, kind) for k in range(8) for n in (256, 4096, 8192) for kind in ("str", "bytes")]
    for j, (k, n, kind) in enumerate(jobs):
        if j % ctx.nshards != ctx.shard:
            continue
        fields = [M.Field("s", 1, M.Str() if kind == "str" else M.Dyn(M.U(8)))]
        if k:
            fields.insert(0, M.Field("a", 0, M.U(k)))
        s = M.Schema([M.Struct("T", fields)])
        fcp, text, err = frontend.parse_schema(s)
        if fcp is None:
            raise HarnessError(f"directed schema rejected: {err}")
        v: Dict[str, Any] = {"s": ("fcpz" * (n // 4)) if kind == "str" else [(i * 29) & 0xFF for i in range(n)]}
        if k:
            v["a"] = (1 << k) - 1
        data = refcodec.encode(s, "T", v)
        nodes = schema_nodes(s)
        for cut in sorted({len(data) - 1, len(data) - 2, len(data) - 3, (k + 32 + 7) // 8, 4, 5}):
            if not (0 <= cut < len(data)):
                continue
            msg, must_fail = check_one(fcp, s, "T", data[:cut], nodes)
            rec.eval()
            rec.cls("directed_block_tail", "prefix")
            rec.nt([text, "T", cut, n])
            if msg:
                rec.violations.append({"message": f"block-length {kind} of {n} at bit offset {k}, prefix[:{cut}] of {len(data)}: {msg}",
                                       "case": {**CC.case_json(s, "T", v), "input": data[:cut].hex(), "mutation": f"prefix[:{cut}]"},
                                       "seed": ctx.base_seed, "shard": ctx.shard})
                return


def run_shard(ctx: Ctx) -> None:
    rec = ctx.rec
    directed_block_tails(ctx)

    def body(case: Any) -> None:
        s, name, vals = case
        rec.frontend_attempts += 1
        fcp, text, err = frontend.parse_schema(s)
        if fcp is None:
            rec.rejected_by_frontend += 1
            return
        nodes = schema_nodes(s)
        for v in vals:
            for desc, data, classes in mutations(s, name, v):
                msg, must_fail = check_one(fcp, s, name, data, nodes)
                rec.eval()
                rec.cls(*classes)
                if must_fail:
                    rec.cls("reference_truncated")
                if must_fail and set(classes) & {"cut_in_str", "cut_in_float", "cut_in_container_elem",
                                                  "cut_after_prefix", "corrupt_prefix"}:
                    rec.nt([text, name, data.hex()])
                    rec.sample({"schema": text, "struct": name, "mutation": desc, "input": data.hex(),
                                "classes": classes})
                if msg:
                    raise Violation(f"{desc}: {msg}", {**CC.case_json(s, name, v), "input": data.hex(), "mutation": desc})

    vcfg = CC.S.ValCfg(long_str=120, long_dyn=40, magic_lengths=False)
    hyp_run(ctx, CC.codec_case(ctx.tier, 3, vcfg), body, ctx.n(1800, 12000))


def replay(case: Dict[str, Any]) -> Optional[str]:
    s = unpickle_b64(case["schema_pickle"])
    fcp, text, err = frontend.parse_schema(s)
    if fcp is None:
        raise HarnessError(f"front end rejects the replay schema: {err}")
    msg, _ = check_one(fcp, s, case["struct"], bytes.fromhex(case["input"]), schema_nodes(s))
    return msg
