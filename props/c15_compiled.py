"""C15 (d)/(e): declaration-permuted twin programs through the generated C and C++ back ends."""

from __future__ import annotations

import math
from typing import Any, Dict, List, Optional, Tuple

from hypothesis import strategies as st

from props import c03, c06, c13, c15
from vlib import c_harness as CH
from vlib import cbuild, cppbuild, cppstrat, frontend, printer, refcodec, reflayout
from vlib import model as M
from vlib import strategies as S
from vlib.runner import Ctx, HarnessError, Violation, hyp_run, pickle_b64, unpickle_b64


@st.composite
def c_twin(draw):
    s, vals = draw(c06.program(6))
    s2, moved = draw(c15.permuted(s))
    return s, s2, moved, vals


@st.composite
def cpp_twin(draw, tier: str):
    s = draw(cppstrat.cpp_program(tier, (4, 7), services=False, dup_ids=False))
    vals = {st_.name: draw(st.lists(S.struct_value(s, st_.name, cppstrat.VCFG), min_size=2, max_size=6)) for st_ in s.structs}
    s2, moved = draw(c15.permuted(s))
    return s, s2, moved, vals


def c_frames(s: M.Schema, vals: Dict[str, List[Any]]) -> Tuple[Optional[List[str]], Optional[str]]:
    fcp, _t, err = frontend.parse_schema(s)
    if fcp is None:
        return None, "__frontend__"
    msgs = CH.can_messages(s)
    with cbuild.BuildDir("verif-c15c-") as bd:
        exe, msg = c06.build(s, fcp, bd)
        if exe is None:
            return None, msg
        lines = []
        for k, im in enumerate(msgs):
            leaves = reflayout.layout(s, im.type, True)
            for v in vals[im.eff_name]:
                lines.append(f"E {k} " + " ".join(CH.raw_args(s, leaves, v)))
        rc, out, errtail = cbuild.run_lines(exe, lines)
        out = [l for l in out if l.strip()]
        if rc != 0 or len(out) != len(lines):
            return None, f"driver failed ({rc}): {errtail[-200:]}"
        return out, None


def check_c_twin(s: M.Schema, s2: M.Schema, vals: Dict[str, List[Any]]) -> Optional[str]:
    f1, e1 = c_frames(s, vals)
    f2, e2 = c_frames(s2, vals)
    if "__frontend__" in (e1, e2):
        return "__frontend__"
    if f1 is None or f2 is None:
        return f"(d) generated C twin failed: {e1 or e2}"
    # expected frames from the reference layout (ascending id)
    msgs = CH.can_messages(s)
    i = 0
    for k, im in enumerate(msgs):
        leaves = reflayout.layout(s, im.type, True)
        dlc = math.ceil(reflayout.total_bits(leaves) / 8)
        for v in vals[im.eff_name]:
            want = f"E {M.plain_value(im.get('id'))} {dlc} {reflayout.pack(s, leaves, v).to_bytes(8, 'little').hex()}"
            if f1[i] != f2[i]:
                return f"(d) generated C frame of {im.eff_name} changes with declaration order: {f1[i]} vs {f2[i]} for {v!r}"
            if f1[i] != want:
                return f"(d) generated C frame of {im.eff_name}: {f1[i]} != reference (ascending id) {want}"
            i += 1
    return None


def cpp_bytes(s: M.Schema, vals: Dict[str, List[Any]]) -> Tuple[Optional[List[Any]], Optional[str]]:
    fcp, _t, err = frontend.parse_schema(s)
    if fcp is None:
        return None, "__frontend__"
    with cbuild.BuildDir("verif-c15p-") as bd:
        files, gerr = cppbuild.generate_cpp(fcp, bd.path("gen"))
        if files is None:
            return None, f"generation failed: {gerr}"
        exe, log = cppbuild.build(bd, files)
        if exe is None:
            return None, "does not compile: " + str([l.split("gen/")[-1] for l in log.split("\n") if "error" in l][:2])
        with open(bd.path("schema.bin"), "wb") as f:
            f.write(cppbuild.reflection_bin(fcp))
        ses = cppbuild.Session(exe, bd.path("schema.bin"))
        reqs = []
        for st_ in s.structs:
            for v in vals[st_.name]:
                reqs.append({"op": "senc", "name": st_.name, "value": v})
                reqs.append({"op": "denc", "name": st_.name, "value": c13.name_enums(s, M.StructRef(st_.name), v)})
        return ses.run(reqs), None


def check_cpp_twin(s: M.Schema, s2: M.Schema, vals: Dict[str, List[Any]]) -> Optional[str]:
    a1, e1 = cpp_bytes(s, vals)
    a2, e2 = cpp_bytes(s2, vals)
    if "__frontend__" in (e1, e2):
        return "__frontend__"
    if a1 is None or a2 is None:
        return f"(e) generated C++ twin failed: {e1 or e2}"
    i = 0
    for st_ in s.structs:
        for v in vals[st_.name]:
            ref = refcodec.encode(s, st_.name, v)
            for label, off in (("static", 0), ("run-time", 1)):
                x, y = a1[i + off], a2[i + off]
                if "bytes" not in x or "bytes" not in y:
                    return f"(e) C++ {label} codec failed on a twin: {x} / {y}"
                if x["bytes"] != y["bytes"]:
                    return (f"(e) C++ {label} bytes of {st_.name} change with declaration order: "
                            f"{bytes(x['bytes']).hex()} vs {bytes(y['bytes']).hex()} for {v!r}")
                if bytes(x["bytes"]) != ref:
                    return f"(e) C++ {label} bytes of {st_.name} {bytes(x['bytes']).hex()} != canonical (ascending id) {ref.hex()}"
            i += 2
    return None


def run(ctx: Ctx) -> None:
    rec = ctx.rec

    def body_c(c: Any) -> None:
        s, s2, moved, vals = c
        msg = check_c_twin(s, s2, vals)
        if msg == "__frontend__":
            return
        rec.eval()
        rec.cls("c_twin")
        if moved:
            rec.cls("moved_across_different")
            rec.nt(["c", printer.to_text(s), printer.to_text(s2)])
        if msg:
            raise Violation(msg, {"kind": "c_twin", "S_text": printer.to_text(s), "S2_text": printer.to_text(s2),
                                  "pickle": pickle_b64((s, s2, vals))})

    def body_cpp(c: Any) -> None:
        s, s2, moved, vals = c
        msg = check_cpp_twin(s, s2, vals)
        if msg == "__frontend__":
            return
        rec.eval()
        rec.cls("cpp_twin")
        if moved:
            rec.cls("moved_across_different")
            rec.nt(["cpp", printer.to_text(s), printer.to_text(s2)])
        if msg:
            raise Violation(msg, {"kind": "cpp_twin", "S_text": printer.to_text(s), "S2_text": printer.to_text(s2),
                                  "pickle": pickle_b64((s, s2, vals))})

    n_c = 10 if ctx.tier == "quick" else 60
    n_p = 2 if ctx.tier == "quick" else 20
    hyp_run(ctx, c_twin(), body_c, n_c, tag="c_twin", shrink_cap=20)
    hyp_run(ctx, cpp_twin(ctx.tier), body_cpp, n_p, tag="cpp_twin", shrink_cap=4)


def replay(c: Dict[str, Any]) -> Optional[str]:
    s, s2, vals = unpickle_b64(c["pickle"])
    msg = check_c_twin(s, s2, vals) if c["kind"] == "c_twin" else check_cpp_twin(s, s2, vals)
    if msg == "__frontend__":
        raise HarnessError("front end rejects the replay schema")
    return msg
