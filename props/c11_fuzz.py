"""atheris / libFuzzer campaign for C11 (thorough tier).  Runs in a subprocess because
atheris.Fuzz() never returns; the target applies the full C11 oracle to every input and
saves one input per failure bucket instead of crashing, so the campaign continues."""

from __future__ import annotations

import glob
import os
import shutil
import subprocess
import sys
import tempfile
from typing import Any, List

from vlib.runner import REPO, VERIF

RUNS_PER_SHARD = int(os.environ.get("VERIF_C11_FUZZ_RUNS", "40000"))


def available() -> bool:
    try:
        sys.path.insert(0, os.path.join(VERIF, ".deps"))
        import atheris  # noqa: F401

        return True
    except Exception:
        return False
    finally:
        sys.path.pop(0)


def campaign(ctx: Any, runs: int, empty_corpus: bool) -> List[str]:
    rec = ctx.rec
    if not available():
        rec.extra["atheris"] = "not importable: campaign skipped"
        return []
    work = tempfile.mkdtemp(prefix="verif-c11-fuzz-")
    try:
        corpus = os.path.join(work, "corpus")
        found = os.path.join(work, "found")
        os.makedirs(corpus)
        os.makedirs(found)
        if not empty_corpus:
            for i, p in enumerate(sorted(glob.glob(os.path.join(REPO, "**", "*.fcp"), recursive=True))):
                if os.path.getsize(p) <= 1500:
                    shutil.copy(p, os.path.join(corpus, f"seed{i}.fcp"))
        env = dict(os.environ)
        env["VERIF_C11_FOUND"] = found
        cmd = [
            sys.executable, os.path.join(VERIF, "tools", "c11_fuzz_target.py"),
            f"-runs={runs}", f"-seed={ctx.seed % (2**31 - 1) + 1}", "-max_len=600", "-timeout=60",
            f"-dict={os.path.join(VERIF, 'corpus', 'c11', 'fcp.dict')}", f"-artifact_prefix={work}/", corpus,
        ]
        try:
            p = subprocess.run(cmd, env=env, stdout=subprocess.PIPE, stderr=subprocess.STDOUT, timeout=3600, text=True)
            tail = p.stdout[-400:]
        except subprocess.TimeoutExpired:
            tail = "campaign timed out (inconclusive)"
        rec.extra["atheris_runs"] = rec.extra.get("atheris_runs", 0) + runs
        rec.extra["atheris_last_log"] = tail.replace("\n", " | ")[-300:]
        out = []
        for f in sorted(glob.glob(os.path.join(found, "*"))) + sorted(glob.glob(os.path.join(work, "crash-*"))) + sorted(
                glob.glob(os.path.join(work, "timeout-*"))):
            out.append(open(f, "rb").read().decode("utf-8", "replace"))
        rec.extra["atheris_corpus_size"] = len(os.listdir(corpus))
        return out
    finally:
        shutil.rmtree(work, ignore_errors=True)
