"""C04 — packed CAN layout tiles the message: no gaps, no overlaps, field-id order."""

from __future__ import annotations

from typing import Any, Dict, List, Optional, Tuple

from hypothesis import strategies as st

from vlib import frontend, printer, reflayout
from vlib import model as M
from vlib import strategies as S
from vlib.runner import Ctx, HarnessError, Violation, hyp_run, pickle_b64, unpickle_b64

LEVEL = "exploration"
RULE = (
    "Hypothesis-generated fixed-size schemas (nested structs <= 3 levels, arrays of scalars/structs/arrays, enums of "
    "every width 1..63, int widths 1..64, shuffled ids) with 1-4 bindings over protocols {can, other} carrying signal "
    "blocks named after top-level, nested, unrolled and non-existing fields, parsed by the real front end; plus a "
    "generated history of (new_encoder(unroll) | generate(binding i)) operations on one PackedEncoder, including calls that "
    "fail (array of structs without unrolling). Oracle after "
    "every generate(): (a) names/starts/widths/order/leaf type/unit == reference layout fold; (b) starts at 0, contiguous, "
    "unique names, total == sum of wire widths; (c) equals what a fresh encoder returns, and lists returned earlier are "
    "not mutated; (d) a leaf produced directly by a field named like a signal block carries that block's options and "
    "byte order, a leaf of a differently named field carries none (unrolled elements of a named array are only counted). "
    "Non-trivial = >= 3 leaves and (enum width not in {1,2,4,8}, ids out of order, nested array, or >= 2 generate() calls "
    "before the checked one); distinct by sha1(schema text, binding, unroll, history prefix)."
)
ASSUMPTIONS = [
    "unroll_arrays=False with an array of structs is outside the domain (the encoder raises ValueError; no caller uses it)",
    "whether a signal block on an array field x covers its unrolled elements x_i is not fixed by the statement: only counted",
]
FLOORS = {
    "enum_width_non_pow2": 0.015,
    "ids_out_of_order": 0.10,
    "nested_array": 0.03,
    "history_ge2": 0.10,
    "block_on_nested_or_other": 0.03,
    "no_unroll": 0.05,
}


def layout_cfg(tier: str) -> S.SchemaCfg:
    return S.SchemaCfg(
        types=S.TypeCfg(depth=2 if tier == "quick" else 3, strings=False, dyn=False, opt=False, max_arr=3,
                        big_arr=(10, 11, 12, 13)),
        min_enums=0,
        max_enums=3,
        max_structs=4,
        max_fields=5,
        enum_max_bits=63,
        units=True,
        dup_ids=True,
    )


@st.composite
def layout_case(draw, tier: str):
    s = draw(S.data_schema(layout_cfg(tier)))
    structs = [x.name for x in s.structs]
    # now and then a sibling field spelled like an unrolled array element ("x_1" next to "x: [T, 2]")
    for st_ in s.structs:
        arrs = [f for f in st_.fields if isinstance(f.type, M.Arr)]
        if arrs and draw(st.integers(0, 7)) == 0:
            a = draw(st.sampled_from(arrs))
            nm = f"{a.name}_{draw(st.integers(0, a.type.n - 1))}"
            if all(f.name != nm for f in st_.fields):
                st_.fields.append(M.Field(nm, max(f.fid for f in st_.fields) + 1, M.U(draw(st.integers(1, 8)))))
    # field names of nested structs that are equal to / end with / start with the name of the field that contains
    # them (hierarchical names are built by joining: "a_0::data_0::x" contains "a_0" twice)
    def related(base: str) -> List[str]:
        return [base, "x" + base, base + "x", "dat" + base, base + base]

    for st_ in s.structs:
        for f in st_.fields:
            leaf = M.type_leaf(f.type)
            if not isinstance(leaf, M.StructRef) or draw(st.integers(0, 2)) != 0:
                continue
            inner = s.struct(leaf.name)
            cands = [g for g in inner.fields if isinstance(g.type, (M.Arr, M.StructRef))] or list(inner.fields)
            g = draw(st.sampled_from(cands))
            nm = draw(st.sampled_from(related(f.name)))
            if all(h.name != nm for h in inner.fields):
                g.name = nm
    # a sibling field spelled like the flattened name of a nested leaf ("status_code" next to status: {code}): a signal
    # block declared for the sibling must not reach the nested leaf
    flat_sib: Dict[str, str] = {}
    for st_ in s.structs:
        nested_f = [f for f in st_.fields if isinstance(M.type_leaf(f.type), M.StructRef)]
        if nested_f and draw(st.integers(0, 1)) == 0:
            f = draw(st.sampled_from(nested_f))
            inner = s.struct(M.type_leaf(f.type).name)
            g = draw(st.sampled_from(inner.fields))
            nm = f.name + draw(st.sampled_from(["_", "_", "_", "_", "", "__"])) + g.name
            if all(h.name != nm for h in st_.fields):
                st_.fields.append(M.Field(nm, max(h.fid for h in st_.fields) + 1, M.U(draw(st.integers(1, 8)))))
                flat_sib[st_.name] = nm
    # a field whose name differs only in letter case from a field that carries a signal block ("ID" next to "id", in the
    # same or in a nested struct): differently named, so the block's options must not reach it
    case_sib: Dict[str, str] = {}
    for st_ in s.structs:
        if draw(st.integers(0, 2)) == 0:
            f = draw(st.sampled_from(st_.fields))
            twin = draw(st.sampled_from([f.name.upper(), f.name.capitalize(), f.name.swapcase()]))
            if twin != f.name and S._ok_plain(twin):
                nested_f = [g for g in st_.fields if isinstance(M.type_leaf(g.type), M.StructRef)]
                host = s.struct(M.type_leaf(draw(st.sampled_from(nested_f)).type).name) if nested_f and draw(st.booleans()) else st_
                if all(h.name != twin for h in host.fields) and all(h.name != twin for h in st_.fields):
                    host.fields.append(M.Field(twin, max(h.fid for h in host.fields) + 1, M.U(draw(st.integers(1, 8)))))
                    case_sib[st_.name] = f.name
    if draw(st.integers(0, 7)) == 0:
        # directed: an array of structs whose elements contain an array of structs (two unrolled levels), with the
        # inner field named after the outer one
        taken = {d.name for d in s.decls}
        nm = [n for n in ("CellQ", "RowQ", "GridQ") if n not in taken]
        if len(nm) == 3:
            outer = draw(S.lower_ident)
            inner = draw(st.sampled_from(related(outer) + [draw(S.lower_ident)]))
            cell = M.Struct(nm[0], [M.Field("x", 1, M.U(draw(st.integers(1, 9)))), M.Field("y", 0, M.I(draw(st.integers(1, 9))))])
            row_fields = [M.Field(inner, draw(st.integers(0, 5)), M.Arr(M.StructRef(nm[0]), draw(st.integers(1, 3))))]
            if draw(st.booleans()):
                row_fields.append(M.Field("k", 7, M.U(draw(st.integers(1, 8)))))
            grid_fields = [M.Field(outer, draw(st.integers(0, 5)), M.Arr(M.StructRef(nm[1]), draw(st.integers(2, 3))))]
            if draw(st.booleans()) and outer != "tail":
                grid_fields.append(M.Field("tail", 9, M.U(draw(st.integers(1, 8)))))
            s.decls += [cell, M.Struct(nm[1], row_fields), M.Struct(nm[2], grid_fields)]
            structs = [x.name for x in s.structs]
            structs += [nm[2]] * 3  # bias the bindings towards it
    n_impl = draw(st.integers(1, 4))
    used = set()
    for _ in range(n_impl):
        target = draw(st.sampled_from(structs))
        proto = draw(st.sampled_from(["can", "can", "other"]))
        nm = draw(st.none() | S.pascal_ident.filter(lambda x: x not in structs))
        eff = nm or target
        if (eff, proto) in used:
            continue
        used.add((eff, proto))
        fields = [("id", draw(st.integers(0, 2047)))]
        sbs = draw(S.signal_blocks(s, target))
        if target in case_sib and all(sb.name != case_sib[target] for sb in sbs) and draw(st.integers(0, 3)) != 0:
            sbs.append(M.SignalBlock(case_sib[target], draw(st.sampled_from([
                [("endianess", "big")], [("mux_count", 4), ("mux_signal", case_sib[target])], [("endianess", "big"), ("scale", 2)]]))))
        if target in flat_sib and all(sb.name != flat_sib[target] for sb in sbs) and draw(st.integers(0, 3)) != 0:
            sbs.append(M.SignalBlock(flat_sib[target], draw(st.sampled_from([
                [("endianess", "big")], [("mux_count", 4), ("mux_signal", flat_sib[target])], [("endianess", "big"), ("scale", 2)]]))))
        order = S.interleave(draw, len(fields), len(sbs))
        s.decls.append(M.Impl(proto, target, nm, fields, sbs, order))
    n_impls_total = len(s.impls) + len(s.structs)
    ops = draw(
        st.lists(
            st.one_of(
                st.tuples(st.just("gen"), st.integers(0, n_impls_total - 1)),
                st.tuples(st.just("gen"), st.integers(0, n_impls_total - 1)),
                st.tuples(st.just("gen"), st.integers(0, n_impls_total - 1)),
                st.tuples(st.just("gen"), st.integers(0, n_impls_total - 1)),
                st.tuples(st.just("new"), st.booleans()),
            ),
            min_size=1,
            max_size=10,
        )
    )
    unroll0 = draw(st.booleans() | st.just(True))
    return s, unroll0, ops


def describe_values(vals: List[Any]) -> List[Tuple[Any, ...]]:
    out = []
    for v in vals:
        t = v.type
        tname = getattr(t, "name", None) or getattr(t, "type", "?")
        out.append((v.name, v.bitstart, v.bitlength, tname, v.endianess, v.unit, dict(v.extended_data)))
    return out


def leaf_type_name(lf: reflayout.Leaf) -> str:
    t = lf.type
    if isinstance(t, M.Arr):
        return "Array"
    return M.type_text(t)


def can_layout(s: M.Schema, struct_name: str, unroll: bool) -> Optional[List[reflayout.Leaf]]:
    try:
        return reflayout.layout(s, struct_name, unroll)
    except reflayout.NotFixedSize:
        return None


def is_unroll_collision(s: M.Schema, ref: List[reflayout.Leaf], name: str) -> bool:
    """Signature of finding C04-UNROLL-NAME-COLLISION: the duplicated leaf name is produced once by a declared field
    spelled `x_i` and once by element i of a sibling array field `x` of the same struct."""
    same = [lf for lf in ref if lf.name == name]
    if len(same) < 2:
        return False
    declared = [lf for lf in same if lf.field == lf.origin]  # a declared field of exactly that name
    unrolled = [lf for lf in same if lf.field != lf.origin]  # an element x_i of an array x
    return bool(declared) and bool(unrolled) and all(lf.path[:-2] == declared[0].path[:-1] or lf.path[:-1][:len(declared[0].path) - 1] == declared[0].path[:-1] for lf in unrolled)


def check_layout(s: M.Schema, impl: M.Impl, unroll: bool, got: List[Tuple[Any, ...]], known: Any = None,
                 rec: Any = None) -> Optional[str]:
    ref = reflayout.layout(s, impl.type, unroll)
    want = [(lf.name, lf.start, lf.width, leaf_type_name(lf), lf.unit) for lf in ref]
    have = [(g[0], g[1], g[2], g[3], g[5]) for g in got]
    if have != want:
        for i, (h, w) in enumerate(zip(have, want)):
            if h != w:
                return f"(a) leaf {i}: got (name,start,width,type,unit)={h}, reference {w}"
        return f"(a) {len(have)} leaves, reference has {len(want)}"
    # (b) tiling, checked on the implementation's own output
    pos = 0
    names = set()
    for g in got:
        if g[1] != pos:
            return f"(b) leaf {g[0]} starts at {g[1]}, expected {pos} (gap/overlap)"
        pos += g[2]
        if g[0] in names:
            if known is not None and "C04-UNROLL-NAME-COLLISION" in known and is_unroll_collision(s, ref, g[0]):
                if rec is not None:
                    rec.known("C04-UNROLL-NAME-COLLISION")
            else:
                return f"(b) duplicate leaf name {g[0]}"
        names.add(g[0])
    if pos != reflayout.wire_width(s, M.StructRef(impl.type)):
        return f"(b) total {pos} != sum of wire widths"
    # (d) signal options
    blocks = {}
    for sb in impl.signals:
        blocks[sb.name] = {k: M.plain_value(v) for k, v in sb.fields}  # later duplicates of a key overwrite
    first_block: Dict[str, Dict[str, Any]] = {}
    for sb in impl.signals:
        first_block.setdefault(sb.name, {k: M.plain_value(v) for k, v in dict(sb.fields).items()})
    for lf, g in zip(ref, got):
        ext = g[6]
        endian = g[4]
        if lf.field in first_block:
            if lf.field != lf.origin:
                continue  # block named x_i: it names this derived leaf; statement silent -> unconstrained
            want_ext = first_block[lf.field]
            if ext != want_ext:
                return f"(d) leaf {lf.name} of field {lf.field}: options {ext} != declared {want_ext}"
            want_end = want_ext.get("endianess") or "little"
            if endian != want_end:
                return f"(d) leaf {lf.name}: byte order {endian} != declared {want_end}"
        else:
            if lf.origin in first_block and lf.field != lf.origin:
                continue  # unrolled element of an array named by a block: unconstrained
            if ext or endian != "little":
                return f"(d) leaf {lf.name} (field {lf.field}) carries options {ext}/{endian} but no block names it"
    return None


def run_history(s: M.Schema, fcp: Any, unroll0: bool, ops: List[Tuple[str, Any]], rec: Any, text: str,
                known: Any = None) -> None:
    from fcp.encoding import PackedEncoderContext, make_encoder

    impls = list(fcp.impls)
    # map real impls to model impls (explicit ones) or default bindings
    explicit = {(i.eff_name, i.protocol): i for i in s.impls}
    unroll = unroll0
    enc = make_encoder("packed", fcp, PackedEncoderContext().with_unroll_arrays(unroll))
    earlier: List[Tuple[Any, List[Tuple[Any, ...]]]] = []
    n_gen = 0
    for step, (op, arg) in enumerate(ops):
        if op == "new":
            unroll = arg
            enc = make_encoder("packed", fcp, PackedEncoderContext().with_unroll_arrays(unroll))
            n_gen = 0
            continue
        real = impls[arg % len(impls)]
        m = explicit.get((real.name, real.protocol)) or M.Impl(real.protocol, real.type)
        ref = can_layout(s, m.type, unroll)
        if ref is None:
            # array of struct without unrolling has no layout (a clean ValueError): still a step of the history —
            # whatever the failed call did must not leak into the next layout
            try:
                enc.generate(real)
            except Exception:
                pass
            rec.cls("failed_generate_in_history")
            n_gen += 1
            continue
        case = {"schema_text": text, "schema_pickle": pickle_b64(s), "unroll0": unroll0, "ops": [list(o) for o in ops[: step + 1]]}
        try:
            got_vals = enc.generate(real)
            got = describe_values(got_vals)
            fresh = describe_values(
                make_encoder("packed", fcp, PackedEncoderContext().with_unroll_arrays(unroll)).generate(real)
            )
        except Exception as e:
            raise Violation(f"generate({real.name}/{real.protocol}) raised {type(e).__name__}: {e}", case)
        rec.eval()
        enum_w = [lf.width for lf in ref if isinstance(lf.type, M.EnumRef)]
        st_ = s.struct(m.type)
        ids = [f.fid for f in st_.fields]
        classes = []
        if any(w not in (1, 2, 4, 8) for w in enum_w):
            classes.append("enum_width_non_pow2")
        if ids != sorted(ids):
            classes.append("ids_out_of_order")
        if any(isinstance(f.type, M.Arr) and isinstance(f.type.t, (M.Arr, M.StructRef)) for f in st_.fields):
            classes.append("nested_array")
        if n_gen >= 2:
            classes.append("history_ge2")
        if not unroll:
            classes.append("no_unroll")
        top = {f.name for f in st_.fields}
        if any(sb.name not in top for sb in m.signals):
            classes.append("block_on_nested_or_other")
        if m.signals:
            classes.append("has_signal_block")
        parts = [lf.name.split("::") for lf in ref]
        if any(len(ps) >= 2 and any(a != b and (a.rstrip("0123456789_") in b) for a, b in zip(ps, ps[1:])) for ps in parts):
            classes.append("nested_name_contains_outer_name")
        rec.cls(*classes)
        if len(ref) >= 3 and set(classes) & {"enum_width_non_pow2", "ids_out_of_order", "nested_array", "history_ge2"}:
            rec.nt([text, real.name, real.protocol, unroll, [list(o) for o in ops[:step]]])
            rec.sample({"schema": text, "binding": [real.name, real.protocol], "unroll": unroll,
                        "ops_before": [list(o) for o in ops[:step]],
                        "layout": [(g[0], g[1], g[2]) for g in got]})
        msg = check_layout(s, m, unroll, got, known, rec)
        if msg is None and got != fresh:
            msg = f"(c) layout depends on history: {got} vs fresh encoder {fresh}"
        if msg is None:
            for (vals_obj, snap) in earlier:
                if describe_values(vals_obj) != snap:
                    msg = "(c) a list returned by an earlier generate() was mutated by a later call"
                    break
        if msg:
            raise Violation(f"binding {real.name}/{real.protocol} unroll={unroll}: {msg}", case)
        earlier.append((got_vals, got))
        n_gen += 1


def canaries(fid: str, record: Dict[str, Any]) -> bool:
    if fid != "C04-UNROLL-NAME-COLLISION":
        raise HarnessError(f"unknown finding id {fid}")
    s = M.Schema([M.Struct("S", [M.Field("speed", 0, M.Arr(M.U(8), 2)), M.Field("speed_1", 1, M.U(8))])])
    fcp, text, err = frontend.parse_schema(s)
    if fcp is None:
        raise HarnessError(f"canary schema rejected: {err}")
    from fcp.encoding import PackedEncoderContext, make_encoder

    got = describe_values(make_encoder("packed", fcp, PackedEncoderContext().with_unroll_arrays(True)).generate(fcp.impls[0]))
    return check_layout(s, M.Impl("default", "S"), True, got) is not None


def run_shard(ctx: Ctx) -> None:
    rec = ctx.rec

    def body(case: Any) -> None:
        s, unroll0, ops = case
        rec.frontend_attempts += 1
        fcp, text, err = frontend.parse_schema(s)
        if fcp is None:
            rec.rejected_by_frontend += 1
            return
        run_history(s, fcp, unroll0, ops, rec, text, ctx.known)

    hyp_run(ctx, layout_case(ctx.tier), body, ctx.n(5600, 40000))


def replay(case: Dict[str, Any]) -> Optional[str]:
    from vlib.runner import Recorder

    s = unpickle_b64(case["schema_pickle"])
    fcp, text, err = frontend.parse_schema(s)
    if fcp is None:
        raise HarnessError(f"front end rejects the replay schema: {err}")
    try:
        from vlib.runner import load_known

        run_history(s, fcp, case["unroll0"], [tuple(o) for o in case["ops"]], Recorder(), text, load_known("C04"))
    except Violation as v:
        return v.message
    return None
