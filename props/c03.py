"""C03 — generated C++ static codec compiles and speaks the canonical wire format."""

from __future__ import annotations

import json
from typing import Any, Dict, List, Optional, Tuple

from hypothesis import strategies as st

from vlib import cbuild, cppbuild, cppstrat, frontend, printer, refcodec
from vlib import codec_common as CC
from vlib import model as M
from vlib import strategies as S
from vlib.runner import Ctx, HarnessError, Violation, hyp_run, pickle_b64, unpickle_b64

LEVEL = "exploration"
RULE = (
    "Programs = Hypothesis-generated schemas of 8-14 structs + 1-3 enums (+0-2 services, for which the generator synthesises "
    "RPC types) over back-end-safe names, int widths 1..64, enum values <= 255, every type constructor, shuffled field ids; "
    "rendered by fcp_cpp from /repo's working tree and compiled as C++17 with g++ together with a generic JSON-lines "
    "harness; per struct 12 (quick) / 60 (thorough) boundary-biased values (finite floats: JSON cannot carry NaN/inf). "
    "Oracle: (a) the harness TU including fcp.h compiles, and a second syntax-only TU including every generated header "
    "compiles; (b) StaticSchema::EncodeJson(S, v) bytes == reference canonical bytes; (c) StaticSchema::DecodeJson(S, "
    "reference bytes) == v as JSON (enums as numbers); (d) the boundary values of every integer field are among the values "
    "(carrier wide enough). Non-trivial = struct with >= 2 fields of which one is sub-byte or a container; distinct by "
    "sha1(schema text, struct, value)."
)
ASSUMPTIONS = [
    "back-end-safe names; enumerator values <= 255 (the generated enum carrier is uint8_t)",
    "JSON cannot express Some(None): Optional[Optional[T]] is flattened in generated schemas",
    "compile warnings are not failures; only ASan-free -O0 builds are used",
]
FLOORS = {"nested_struct": 0.03, "nested_container": 0.05, "enum": 0.05, "sub_byte": 0.3, "ids_out_of_order": 0.2,
          "compiled": (0.9, "program")}


def preflight() -> None:
    try:
        refcodec.self_test()
    except AssertionError as e:
        raise HarnessError(f"reference codec self-test failed: {e}")
    if not cbuild.have("g++"):
        raise HarnessError("g++ not found")


@st.composite
def program(draw, tier: str, n_values: int):
    s = draw(cppstrat.cpp_program(tier))
    vals = {st_.name: draw(st.lists(S.struct_value(s, st_.name, cppstrat.VCFG), min_size=2, max_size=n_values))
            for st_ in s.structs}
    return s, vals


def json_eq(a: Any, b: Any) -> bool:
    """JSON answer `a` equals model value `b` (ints exact, floats bit-exact as doubles)."""
    if isinstance(b, float):
        return isinstance(a, (int, float)) and not isinstance(a, bool) and refcodec.same_value(float(a), b)
    if isinstance(b, dict):
        return isinstance(a, dict) and set(a) == set(b) and all(json_eq(a[k], b[k]) for k in b)
    if isinstance(b, list):
        return isinstance(a, list) and len(a) == len(b) and all(json_eq(x, y) for x, y in zip(a, b))
    if b is None:
        return a is None
    if isinstance(b, bool) or isinstance(a, bool):
        return False
    if isinstance(b, int):
        return isinstance(a, int) and a == b
    return a == b


def check_program(s: M.Schema, vals: Dict[str, List[Any]], rec: Any = None, text: str = "") -> Optional[str]:
    fcp, _t, err = frontend.parse_schema(s)
    if fcp is None:
        return "__frontend__"
    with cbuild.BuildDir("verif-c03-") as bd:
        files, gerr = cppbuild.generate_cpp(fcp, bd.path("gen"))
        if files is None:
            return f"(a) fcp_cpp generation failed: {gerr}"
        exe, log = cppbuild.build(bd, files)
        if exe is None:
            errs = [l.split("gen/")[-1] for l in log.split("\n") if "error" in l][:3]
            return f"(a) generated C++ does not compile: {errs}"
        ok, log2 = cppbuild.syntax_check_all(bd, files)
        if not ok:
            errs = [l.split("gen/")[-1] for l in log2.split("\n") if "error" in l][:3]
            return f"(a) a generated header does not compile: {errs}"
        if rec is not None:
            rec.cls("compiled")
        ses = cppbuild.Session(exe, None)
        reqs = []
        plan = []
        for st_ in s.structs:
            for v in vals[st_.name]:
                ref = refcodec.encode(s, st_.name, v)
                reqs.append({"op": "senc", "name": st_.name, "value": v})
                reqs.append({"op": "sdec", "name": st_.name, "bytes": list(ref)})
                plan.append((st_.name, v, ref))
        ans = ses.run(reqs)
        for i, (name, v, ref) in enumerate(plan):
            a_enc, a_dec = ans[2 * i], ans[2 * i + 1]
            if rec is not None:
                _d, classes, _nt = CC.classify(s, name, v)
                rec.eval()
                rec.cls(*classes)
                st_ = s.struct(name)
                if len(st_.fields) >= 2 and set(classes) & {"sub_byte", "nested_container", "length_prefixed", "optional_some",
                                                             "nested_struct"}:
                    rec.nt([text, name, refcodec.canon(v)])
                    rec.sample({"schema_excerpt": printer.to_text(M.Schema([st_])), "struct": name,
                                "value": refcodec.canon(v), "canonical": ref.hex()})
            if "bytes" not in a_enc:
                return f"(b) {name}: EncodeJson({v!r}) failed: {a_enc}"
            if bytes(a_enc["bytes"]) != ref:
                return f"(b) {name}: EncodeJson({v!r}) = {bytes(a_enc['bytes']).hex()} != canonical {ref.hex()}"
            if "value" not in a_dec:
                return f"(c) {name}: DecodeJson({ref.hex()}) failed: {a_dec}"
            if not json_eq(a_dec["value"], v):
                return f"(c) {name}: DecodeJson({ref.hex()}) = {a_dec['value']!r} != {v!r}"
    return None


def run_shard(ctx: Ctx) -> None:
    rec = ctx.rec

    def body(c: Any) -> None:
        s, vals = c
        rec.frontend_attempts += 1
        text = printer.to_text(s)
        msg = check_program(s, vals, rec, text)
        if msg == "__frontend__":
            rec.rejected_by_frontend += 1
            return
        rec.cls("program")
        if msg:
            raise Violation(msg, {"schema_text": text, "pickle": pickle_b64((s, vals))})

    hyp_run(ctx, program(ctx.tier, ctx.pick(12, 60)), body, ctx.n(48, 320), shrink_cap=8)


def replay(c: Dict[str, Any]) -> Optional[str]:
    s, vals = unpickle_b64(c["pickle"])
    msg = check_program(s, vals)
    if msg == "__frontend__":
        raise HarnessError("front end rejects the replay schema")
    return msg
