"""C13 — schema loaded at run time from reflection behaves like the compiled one."""

from __future__ import annotations

from typing import Any, Dict, List, Optional, Tuple

from hypothesis import strategies as st

from props import c03
from vlib import cbuild, cppbuild, cppstrat, frontend, printer, refcodec
from vlib import codec_common as CC
from vlib import model as M
from vlib import strategies as S
from vlib.runner import Ctx, HarnessError, Violation, hyp_run, pickle_b64, unpickle_b64

LEVEL = "exploration"
RULE = (
    "Programs as in C03 (8-14 structs, every constructor, widths 1..64, enums <= 255, shuffled ids); the reflection binary "
    "is produced by the Python tool (serde.encode(reflection schema, 'Fcp', fcp.reflection())) and loaded by the compiled "
    "harness with DynamicSchema::LoadBinarySchema. Per value: (a) DynamicSchema::EncodeJson(S, v with enumerators named) "
    "bytes == StaticSchema::EncodeJson(S, v) bytes; (b) DynamicSchema::DecodeJson(canonical bytes) == "
    "StaticSchema::DecodeJson(canonical bytes) after mapping enumerator names to numbers; both sides are also compared with "
    "the reference codec so that a common-mode error is visible. Non-trivial = value with a negative signed field, a "
    "sub-byte field followed by another field, or a container; distinct by sha1(schema text, struct, value)."
)
ASSUMPTIONS = [
    "enumerators are passed to / returned by the run-time codec by name (the one permitted representational difference)",
    "only declared enumerator values are used; strings are 7-bit ASCII; floats finite (JSON)",
]
FLOORS = {"negative": 0.15, "sub_byte": 0.3, "nested_container": 0.05, "enum": 0.05, "optional_some": 0.03,
          "compiled": (0.9, "program")}

preflight = c03.preflight


def name_enums(s: M.Schema, t: M.Type, v: Any) -> Any:
    """Value with every enum leaf replaced by its enumerator name."""
    if isinstance(t, M.EnumRef):
        for n, val in s.enum(t.name).items:
            if val == v:
                return n
        raise KeyError(v)
    if isinstance(t, M.StructRef):
        return {f.name: name_enums(s, f.type, v[f.name]) for f in s.struct(t.name).fields}
    if isinstance(t, (M.Arr, M.Dyn)):
        return [name_enums(s, t.t, x) for x in v]
    if isinstance(t, M.Opt):
        return None if v is None else name_enums(s, t.t, v)
    return v


def number_enums(s: M.Schema, t: M.Type, v: Any) -> Any:
    """Inverse mapping on a decoded JSON value (tolerant: leaves unknown shapes alone)."""
    try:
        if isinstance(t, M.EnumRef):
            return dict(s.enum(t.name).items).get(v, v) if isinstance(v, str) else v
        if isinstance(t, M.StructRef) and isinstance(v, dict):
            return {f.name: number_enums(s, f.type, v[f.name]) for f in s.struct(t.name).fields if f.name in v}
        if isinstance(t, (M.Arr, M.Dyn)) and isinstance(v, list):
            return [number_enums(s, t.t, x) for x in v]
        if isinstance(t, M.Opt):
            return None if v is None else number_enums(s, t.t, v)
    except Exception:
        return v
    return v


def check_program(s: M.Schema, vals: Dict[str, List[Any]], rec: Any = None, text: str = "") -> Optional[str]:
    fcp, _t, err = frontend.parse_schema(s)
    if fcp is None:
        return "__frontend__"
    with cbuild.BuildDir("verif-c13-") as bd:
        files, gerr = cppbuild.generate_cpp(fcp, bd.path("gen"))
        if files is None:
            return f"fcp_cpp generation failed: {gerr}"
        exe, log = cppbuild.build(bd, files)
        if exe is None:
            errs = [l.split("gen/")[-1] for l in log.split("\n") if "error" in l][:3]
            return f"generated C++ does not compile: {errs}"
        if rec is not None:
            rec.cls("compiled")
        try:
            blob = cppbuild.reflection_bin(fcp)
        except Exception as e:
            return f"the Python tool cannot produce the reflection binary: {type(e).__name__}: {e}"
        with open(bd.path("schema.bin"), "wb") as f:
            f.write(blob)
        ses = cppbuild.Session(exe, bd.path("schema.bin"))
        reqs: List[Dict[str, Any]] = [{"op": "load"}]
        plan = []
        for st_ in s.structs:
            for v in vals[st_.name]:
                ref = refcodec.encode(s, st_.name, v)
                named = name_enums(s, M.StructRef(st_.name), v)
                reqs += [{"op": "senc", "name": st_.name, "value": v}, {"op": "denc", "name": st_.name, "value": named},
                         {"op": "sdec", "name": st_.name, "bytes": list(ref)}, {"op": "ddec", "name": st_.name, "bytes": list(ref)}]
                plan.append((st_.name, v, ref))
        ans = ses.run(reqs)
        if ans[0].get("load_error"):
            return f"LoadBinarySchema failed: {ans[0]['load_error']}"
        for i, (name, v, ref) in enumerate(plan):
            a_senc, a_denc, a_sdec, a_ddec = ans[1 + 4 * i: 5 + 4 * i]
            if rec is not None:
                _d, classes, _nt = CC.classify(s, name, v)
                rec.eval()
                rec.cls(*classes)
                if set(classes) & {"negative", "sub_byte", "nested_container", "length_prefixed", "optional_some"}:
                    rec.nt([text, name, refcodec.canon(v)])
                    rec.sample({"schema_excerpt": printer.to_text(M.Schema([s.struct(name)])), "struct": name,
                                "value": refcodec.canon(v), "canonical": ref.hex()})
            if "bytes" not in a_senc:
                return f"{name}: static EncodeJson({v!r}) failed: {a_senc}"
            if "bytes" not in a_denc:
                return f"(a) {name}: run-time EncodeJson({v!r}) failed: {a_denc} (static: {bytes(a_senc['bytes']).hex()})"
            if a_denc["bytes"] != a_senc["bytes"]:
                return (f"(a) {name}: run-time EncodeJson({v!r}) = {bytes(a_denc['bytes']).hex()} != static "
                        f"{bytes(a_senc['bytes']).hex()} (reference {ref.hex()})")
            if bytes(a_senc["bytes"]) != ref:
                return f"(a) {name}: both codecs encode {v!r} as {bytes(a_senc['bytes']).hex()} but canonical is {ref.hex()}"
            if "value" not in a_sdec:
                return f"{name}: static DecodeJson({ref.hex()}) failed: {a_sdec}"
            if "value" not in a_ddec:
                return f"(b) {name}: run-time DecodeJson({ref.hex()}) failed: {a_ddec}"
            dd = number_enums(s, M.StructRef(name), a_ddec["value"])
            if not c03.json_eq(dd, v) or not c03.json_eq(a_sdec["value"], v):
                return (f"(b) {name}: run-time DecodeJson({ref.hex()}) = {a_ddec['value']!r}, static = {a_sdec['value']!r}, "
                        f"value = {v!r}")
    return None


def run_shard(ctx: Ctx) -> None:
    rec = ctx.rec

    def body(c: Any) -> None:
        s, vals = c
        rec.frontend_attempts += 1
        text = printer.to_text(s)
        msg = check_program(s, vals, rec, text)
        if msg == "__frontend__":
            rec.rejected_by_frontend += 1
            return
        rec.cls("program")
        if msg:
            raise Violation(msg, {"schema_text": text, "pickle": pickle_b64((s, vals))})

    hyp_run(ctx, c03.program(ctx.tier, ctx.pick(12, 60)), body, ctx.n(48, 320), shrink_cap=8, tag="c13")


def replay(c: Dict[str, Any]) -> Optional[str]:
    s, vals = unpickle_b64(c["pickle"])
    msg = check_program(s, vals)
    if msg == "__frontend__":
        raise HarnessError("front end rejects the replay schema")
    return msg
