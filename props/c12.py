"""C12 — reflection is a lossless, faithful description of the schema."""

from __future__ import annotations

from typing import Any, Dict, Optional

from vlib import expected_tree as ET
from vlib import frontend, printer, refcodec
from vlib import model as M
from vlib import strategies as S
from vlib.runner import Ctx, HarnessError, Violation, hyp_run, pickle_b64, unpickle_b64

LEVEL = "exploration"
RULE = (
    "Hypothesis-generated full schemas (structs with units/ranges and any type nesting, enums with i32 values, bindings "
    "of several protocols with 'as' names, extension values of every form and signal blocks, services/methods with u32 "
    "ids, devices), printed and parsed by the real front end. Oracle (a) decode(R,'Fcp',encode(R,'Fcp',rec)) == rec for "
    "rec = fcp.reflection() and R = get_reflection_schema(), floats bit-exact; (b) rec without its 'meta' entries == the "
    "record built independently from the description (every struct, field name/id/outermost-first type chain/unit/"
    "range, enumerator, binding with extension fields and signal blocks as name/str(value) pairs, service and method). "
    "In 2 of 3 cases the same FcpV2 object first goes through a generated history of 1-3 tool operations (DBC/C++ generation, "
    "verification with either plug-in's checks, to_dict, packed layout of every binding, describe, an earlier reflection) and "
    "the record must still equal the description. Non-trivial = schema has a range, a unit, a signal block, a service or a "
    "type of depth >= 2; distinct by sha1(text)."
)
ASSUMPTIONS = [
    "ids and enumerator values are inside the reflection schema's carriers (u32 ids, i32 enumerators)",
    "'meta' (source positions) is only required to survive the round-trip, not compared with the description",
    "extension keys are unique within a binding / signal block",
]
FLOORS = {"after_history": 0.25, "range": 0.05, "unit": 0.05, "signal_block": 0.05, "service": 0.05, "depth_ge2": 0.05}


def cfg(tier: str) -> S.FullCfg:
    return S.FullCfg(
        data=S.SchemaCfg(types=S.TypeCfg(depth=3 if tier == "quick" else 5), units=True, ranges=True,
                         enum_max_bits=31, max_structs=4, max_fields=5, max_fid=2**32 - 1),
        free_positions=False,
        protocols=("can", "can", "uart", "lin", "other"),
    )


_R = None


def refl_schema() -> Any:
    global _R
    if _R is None:
        from fcp.reflection import get_reflection_schema

        r = get_reflection_schema()
        if r.is_err():
            raise HarnessError(f"reflection schema does not parse: {r.err()!r}")
        _R = r.unwrap()
    return _R


HISTORY_OPS = ["dbc", "verify", "verify_dbc", "verify_can_c", "to_dict", "layout", "describe", "reflection", "cpp",
               "reflection_scribbled"]


def scribble(x: Any) -> None:
    """What a consumer may do with a record it was handed: edit it in place, at every level."""
    if isinstance(x, dict):
        for v in list(x.values()):
            scribble(v)
        x.clear()
    elif isinstance(x, list):
        for v in x:
            scribble(v)
        del x[:]


def run_history(fcp: Any, ops: Any) -> None:
    """Things a tool does with a parsed schema before asking for its reflection; none of them may change it."""
    for op in ops or []:
        try:
            if op == "dbc":
                import fcp_dbc

                fcp_dbc.Generator().generate(fcp, {"output": "out"})
            elif op.startswith("verify"):
                from fcp.verifier import make_general_verifier

                v = make_general_verifier()
                if op == "verify_dbc":
                    import fcp_dbc

                    fcp_dbc.Generator().register_checks(v)
                elif op == "verify_can_c":
                    import fcp_can_c

                    fcp_can_c.Generator().register_checks(v)
                v.verify(fcp)
            elif op == "to_dict":
                fcp.to_dict()
            elif op == "layout":
                from fcp.encoding import PackedEncoderContext, make_encoder

                enc = make_encoder("packed", fcp, PackedEncoderContext().with_unroll_arrays(True))
                for im in fcp.impls:
                    try:
                        enc.generate(im)
                    except Exception:
                        pass
            elif op == "describe":
                from fcp.describe import describe
                from fcp.specs.type import StructType

                for st_ in fcp.structs:
                    try:
                        describe(fcp, StructType(st_.name))
                    except Exception:
                        pass
            elif op == "reflection":
                fcp.reflection()
            elif op == "reflection_scribbled":
                # an earlier record of the same schema object, edited in place by its consumer
                scribble(fcp.reflection())
            elif op == "cpp":
                import fcp_cpp

                fcp_cpp.Generator().generate(fcp, {"output": "out"})
        except Exception:
            pass  # a failing tool is not this property's business; the schema object must stay intact


def check(s: M.Schema, fcp: Any, ops: Any = None) -> Optional[str]:
    from fcp import serde

    run_history(fcp, ops)
    try:
        rec = fcp.reflection()
    except Exception as e:
        return f"reflection() raised {type(e).__name__}: {e}"
    want = ET.reflection_expected(s)
    got = ET.strip_meta(rec)
    if not ET.strict_eq(got, want):
        return "(b) record differs from the description at " + ET.first_diff(got, want)
    R = refl_schema()
    try:
        enc = serde.encode(R, "Fcp", rec)
        dec = serde.decode(R, "Fcp", bytearray(enc))
    except Exception as e:
        return f"(a) serializing the record raised {type(e).__name__}: {e}"
    if not refcodec.same_value(dec, rec):
        return "(a) decode(encode(rec)) != rec at " + ET.first_diff(dec, rec)
    return None


def classes_of(s: M.Schema) -> list:
    cl = []
    if any(f.rng is not None for st in s.structs for f in st.fields):
        cl.append("range")
    if any(f.unit is not None for st in s.structs for f in st.fields):
        cl.append("unit")
    if any(i.signals for i in s.impls):
        cl.append("signal_block")
    if s.services:
        cl.append("service")
    if any(M.type_depth(f.type) >= 2 for st in s.structs for f in st.fields):
        cl.append("depth_ge2")
    return cl


def run_shard(ctx: Ctx) -> None:
    rec = ctx.rec
    refl_schema()

    def body(c: Any) -> None:
        s, ops = c
        rec.frontend_attempts += 1
        fcp, text, err = frontend.parse_schema(s)
        if fcp is None:
            rec.rejected_by_frontend += 1
            return
        rec.eval()
        cl = classes_of(s)
        rec.cls(*cl)
        if cl:
            rec.nt(text)
            rec.sample({"schema": text, "classes": cl})
        if ops:
            rec.cls("after_history")
        msg = check(s, fcp, ops)
        if msg:
            raise Violation(msg + (f" (after {ops} on the same schema object)" if ops else ""),
                            {"schema_text": text, "schema_pickle": pickle_b64(s), "ops": ops})

    from hypothesis import strategies as st

    strat = st.tuples(S.full_schema(cfg(ctx.tier)), st.lists(st.sampled_from(HISTORY_OPS), max_size=3))
    hyp_run(ctx, strat, body, ctx.n(2400, 20000))


def replay(case: Dict[str, Any]) -> Optional[str]:
    s = unpickle_b64(case["schema_pickle"])
    fcp, text, err = frontend.parse_schema(s)
    if fcp is None:
        raise HarnessError(f"front end rejects the replay schema: {err}")
    return check(s, fcp, case.get("ops"))
