"""C17 — generated artifacts are a deterministic function of the schema."""

from __future__ import annotations

import json
import os
import subprocess
import sys
from typing import Any, Dict, List, Optional, Tuple

from hypothesis import strategies as st

from vlib import canstrat as CS
from vlib import model as M
from vlib import printer
from vlib import strategies as S
from vlib.runner import REPO, VERIF, Ctx, HarnessError, Violation, hyp_run, pickle_b64, unpickle_b64

LEVEL = "exploration"
RULE = (
    "Cases = batches of 3 (schema, generator in {dbc, can_c, cpp, nop}); schemas are CAN schemas with extra bindings of "
    "other protocols, services and signal blocks. Per case four observations of the {relative path: contents} map returned "
    "by the plug-in's Generator.generate (C++ stamp line blanked): (i) fresh process PYTHONHASHSEED=0, (ii) fresh process "
    "with another hash seed (1, or a generated one), (iii) at the end of a history in one long-lived worker process under a "
    "generated hash seed — the history being generated parse / parse-of-broken-text / generate operations plus every "
    "earlier case of the batch —, (iv) the same call repeated on the re-parsed schema and (v) twice more on the same FcpV2 "
    "object. Oracle: all maps identical. Non-trivial = schema with >= 2 protocols, a service or a signal block, observed "
    "after a history of >= 2 operations; distinct by sha1(schema text, generator, history)."
)
ASSUMPTIONS = [
    "the documented '// Generated using fcp ... on ... by ...' line of the C++ generator is blanked before comparing",
    "hash-seed dependence is sampled (3 seeds per schema), not enumerated",
]
FLOORS = {"multi_protocol": 0.3, "service": 0.15, "signal_block": 0.2, "history_ge2": 0.4, "gen_cpp": 0.1, "gen_dbc": 0.1,
          "gen_can_c": 0.1}
GENERATORS = ["dbc", "can_c", "cpp", "nop"]
BROKEN = ['version: "3"\nstruct S { a @0: Nope, }', 'version: "3"\nstruct $', 'version: "2"', 'version: "3"\nenum E { }',
          'version: "3"\nstruct S { a @0: u8,']


@st.composite
def det_schema(draw) -> M.Schema:
    cfg = CS.CanCfg(max_msgs=3, max_enums=2, enums_max_bits=8, widths=st.sampled_from([8, 16, 32, 64]),
                    signed=True, nested=False, arrays=False, mux=True, mux_two_selectors=True, max_leaf_fields=7)
    s = draw(CS.can_schema(cfg))
    # device names whose snake/pascal conversions collide ("Ecu"/"ecu", "BmsMaster"/"bms_master") share generated paths
    if draw(st.integers(0, 3)) == 0:
        pair = draw(st.sampled_from([("Ecu", "ecu"), ("BmsMaster", "bms_master"), ("Vcu", "vcu")]))
        cans = [i for i in s.impls if i.protocol == "can"]
        for n, im in enumerate(cans):
            im.fields = [(k, v) for k, v in im.fields if k != "device"] + [("device", pair[n % 2])]
            im.order = None
    if len(s.enums) >= 2 and draw(st.integers(0, 2)) == 0:
        # enumerator names are scoped by their enum in FCP: the same names may appear in several enums
        a, b = s.enums[0], s.enums[1]
        shared = ["Off", "On", "Error", "Idle"][: max(len(a.items), len(b.items), 2)]
        for e in (a, b):
            vals = [v for _n, v in e.items]
            while len(vals) < len(shared):
                vals.append(max(vals) + 1)
            e.items = [(shared[i], vals[i]) for i in range(len(shared))]
    structs = [x.name for x in s.structs]
    taken = {(i.eff_name, i.protocol) for i in s.impls}
    for _ in range(draw(st.integers(0, 3))):
        # incl. protocol names that differ only in letter case from another one (separate protocols, separate files)
        proto = draw(st.sampled_from(["uart", "lin", "eth", "spi", "CAN", "Can", "UART", "Uart", "uart"]))
        target = draw(st.sampled_from(structs))
        if (target, proto) in taken:
            continue
        taken.add((target, proto))
        fields = [(draw(st.sampled_from(["id", "baud", "prio", "endianess"])), draw(st.integers(0, 100)))]
        s.decls.append(M.Impl(proto, target, None, fields, []))
    used = {d.name for d in s.decls if hasattr(d, "name")}
    for k in range(draw(st.integers(0, 2))):
        nm = draw(CS.can_type.filter(lambda x: x not in used))
        used.add(nm)
        n = draw(st.integers(1, 2))
        mn = draw(S.unique_names(CS.can_field, n, n))
        s.decls.append(M.Service(nm, k + 1, [M.Method(m, draw(st.sampled_from(structs)), j, draw(st.sampled_from(structs)))
                                             for j, m in enumerate(mn)]))
    return s


@st.composite
def variant(draw, s: M.Schema) -> M.Schema:
    """Same declaration names as `s`, different contents (enum sizes, field order/ids): what an edited copy of a
    schema, or another project reusing the same names, looks like to state that survives inside the process."""
    import copy

    v = copy.deepcopy(s)
    for e in v.enums:
        k = draw(st.integers(0, 2))
        top = max(val for _n, val in e.items)
        if k == 0:
            e.items.append((e.name + "Big", min(255, top * 4 + 3)))
        elif k == 1 and len(e.items) > 1:
            e.items = e.items[:1]
        else:
            e.items = [(n, (val + 1) % 256) for n, val in e.items]
        seen = set()
        e.items = [(n, val) for n, val in e.items if not (val in seen or seen.add(val))]
    for st_ in v.structs:
        if len(st_.fields) >= 2 and draw(st.booleans()):
            st_.fields = list(reversed(st_.fields))
        if draw(st.booleans()):
            st_.fields = st_.fields[:1]
    return v


@st.composite
def batch(draw):
    cases = []
    for _ in range(3):
        s = draw(det_schema())
        gen = draw(st.sampled_from(GENERATORS))
        pre = []
        for _ in range(draw(st.integers(0, 3))):
            k = draw(st.integers(0, 2))
            if k == 0:
                pre.append({"op": "parse", "text": draw(st.sampled_from(BROKEN))})
            elif k == 1:
                other = draw(variant(s)) if draw(st.booleans()) else draw(det_schema())
                pre.append({"op": "parse", "text": printer.to_text(other)})
            else:
                other = draw(variant(s)) if draw(st.booleans()) else draw(det_schema())
                pre.append({"op": "generate", "gen": draw(st.sampled_from(GENERATORS)), "text": printer.to_text(other)})
        cases.append((s, gen, pre))
    seed2 = draw(st.sampled_from([1, 1, 2, 12345]) | st.integers(1, 2**32 - 1))
    seed3 = draw(st.sampled_from([0, 1, 7]) | st.integers(0, 2**32 - 1))
    return cases, seed2, seed3


def run_worker(jobs: List[Dict[str, Any]], hashseed: int) -> List[Dict[str, Any]]:
    env = dict(os.environ)
    env["PYTHONHASHSEED"] = str(hashseed)
    env["PYTHONDONTWRITEBYTECODE"] = "1"
    try:
        p = subprocess.run([sys.executable, os.path.join(VERIF, "tools", "c17_worker.py")], input=json.dumps(jobs),
                           stdout=subprocess.PIPE, stderr=subprocess.PIPE, text=True, env=env, timeout=600)
    except subprocess.TimeoutExpired:
        raise HarnessError("C17 worker timed out (inconclusive)")
    if p.returncode != 0:
        raise HarnessError(f"C17 worker failed: {p.stderr[-400:]}")
    return json.loads(p.stdout)


def first_map_diff(a: Dict[str, str], b: Dict[str, str]) -> str:
    if a.keys() != b.keys():
        return f"file sets differ: {sorted(set(a) ^ set(b))}"
    for k in a:
        if a[k] != b[k]:
            la, lb = a[k].split("\n"), b[k].split("\n")
            for i, (x, y) in enumerate(zip(la, lb)):
                if x != y:
                    return f"{k} line {i + 1}: {x!r} vs {y!r}"
            return f"{k}: lengths {len(la)} vs {len(lb)} lines"
    return ""


def check_batch(cases: List[Tuple[M.Schema, str, List[Dict[str, Any]]]], seed2: int, seed3: int,
                rec: Any = None) -> Optional[Tuple[str, int]]:
    texts = [printer.to_text(s) for s, _g, _p in cases]
    # (iii)-(v): one long-lived worker
    jobs: List[Dict[str, Any]] = []
    idx: List[Tuple[int, int]] = []
    for (s, gen, pre), text in zip(cases, texts):
        jobs += pre
        a = len(jobs)
        jobs.append({"op": "generate", "gen": gen, "text": text})
        jobs.append({"op": "generate", "gen": gen, "text": text, "repeat_same_object": 2})
        idx.append((a, a + 1))
    long_res = run_worker(jobs, seed3)
    for n, ((s, gen, pre), text) in enumerate(zip(cases, texts)):
        fresh0 = run_worker([{"op": "generate", "gen": gen, "text": text}], 0)[0]
        fresh1 = run_worker([{"op": "generate", "gen": gen, "text": text}], seed2)[0]
        obs = [("fresh process, hash seed 0", fresh0), (f"fresh process, hash seed {seed2}", fresh1),
               (f"after a history of {idx[n][0]} operations, hash seed {seed3}", long_res[idx[n][0]]),
               ("repeated on the re-parsed schema", long_res[idx[n][1]])]
        if any("exception" in o for _l, o in obs):
            # generation fails: it must fail everywhere
            if not all("exception" in o for _l, o in obs):
                who = [(l, o.get("exception")) for l, o in obs]
                return f"{gen}: generation fails in some settings only: {who}", n
            if rec is not None:
                rec.cls("generation_failed")
            continue
        base = fresh0["maps"][0]
        for label, o in obs[1:]:
            d = first_map_diff(base, o["maps"][0])
            if d:
                return f"{gen}: output differs between 'fresh process, hash seed 0' and '{label}': {d}", n
        same = long_res[idx[n][1]]["maps"]
        for k, m in enumerate(same[1:], 1):
            d = first_map_diff(base, m)
            if d:
                return f"{gen}: generation #{k + 1} on the same FcpV2 object differs from the first: {d}", n
    return None


def classes_of(s: M.Schema, gen: str, n_before: int) -> List[str]:
    cl = ["gen_" + gen]
    if len({i.protocol for i in s.impls}) >= 2:
        cl.append("multi_protocol")
    if s.services:
        cl.append("service")
    if any(i.signals for i in s.impls):
        cl.append("signal_block")
    if n_before >= 2:
        cl.append("history_ge2")
    return cl


def run_shard(ctx: Ctx) -> None:
    rec = ctx.rec

    def body(b: Any) -> None:
        cases, seed2, seed3 = b
        n_before = 0
        for s, gen, pre in cases:
            n_before += len(pre)
            cl = classes_of(s, gen, n_before)
            rec.eval()
            rec.cls(*cl)
            text = printer.to_text(s)
            if set(cl) & {"multi_protocol", "service", "signal_block"} and "history_ge2" in cl:
                rec.nt([text, gen, [p.get("op") for p in pre], n_before])
                rec.sample({"schema": text, "generator": gen, "history_before": n_before, "hash_seeds": [0, seed2, seed3]})
            n_before += 2
        res = check_batch(cases, seed2, seed3, rec)
        if res:
            msg, n = res
            raise Violation(msg, {"schema_text": printer.to_text(cases[n][0]), "generator": cases[n][1],
                                  "batch_pickle": pickle_b64((cases, seed2, seed3))})

    hyp_run(ctx, batch(), body, ctx.n(96, 1600), shrink_cap=10)


def replay(c: Dict[str, Any]) -> Optional[str]:
    cases, seed2, seed3 = unpickle_b64(c["batch_pickle"])
    res = check_batch(cases, seed2, seed3)
    return res[0] if res else None
