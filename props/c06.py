"""C06 — generated C CAN code packs and unpacks frames per the packed layout."""

from __future__ import annotations

import math
import os
from typing import Any, Dict, List, Optional, Tuple

from hypothesis import strategies as st

from vlib import c_harness as CH
from vlib import canstrat as CS
from vlib import cbuild, frontend, printer, reflayout
from vlib import model as M
from vlib import strategies as S
from vlib.runner import Ctx, HarnessError, Violation, hyp_run, pickle_b64, unpickle_b64

LEVEL = "exploration"
RULE = (
    "Programs = Hypothesis-generated flat CAN schemas in the C generator's advertised subset (1-3 devices x 1-4 messages of "
    "1-6 signals from {u/i 1..64, f32, f64, enums}, total <= 64 bits, any order so floats and signed fields land at "
    "non-zero, non-byte offsets), generated with fcp_can_c from /repo's working tree and compiled with gcc together with a "
    "generated stdin/stdout driver; per message 24 (quick) / 120 (thorough) boundary-biased values (NaN excluded). Oracle: "
    "(a) gcc compiles the generated sources + driver; (b) can_encode_msg_<m>(v) has id == binding id, dlc == ceil(bits/8), "
    "data == reference layout packing of v (unused bytes zero); (c) can_decode_msg_<m>(packing of v) == v (integers and "
    "enums exactly, floats numerically: the runtime's x*1+0 stage may change the sign of zero). Non-trivial = message with "
    ">= 2 signals and one of {float at offset > 0, signed at offset > 0, width not in {8,16,32,64}, enum}; distinct by "
    "sha1(schema text, message, value)."
)
ASSUMPTIONS = [
    "names are back-end safe (C keywords / case-folded collisions excluded; enumerator names globally unique)",
    "NaN payloads are not required to survive the generated code's linear scale/offset stage",
]
FLOORS = {"float_at_offset": 0.05, "signed_at_offset": 0.10, "odd_width": 0.20, "enum": 0.05, "compiled": (0.9, "program")}


def c_cfg(periods: bool = False) -> CS.CanCfg:
    return CS.CanCfg(max_enums=2, max_msgs=4, max_leaf_fields=6, nested=False, arrays=False, big_endian=False, mux=False,
                     buses=False, alias=False, units=False, enums_max_bits=16, periods=periods)


def uniquify_enumerators(s: M.Schema) -> None:
    for e in s.enums:
        e.items = [(f"{e.name}x{k}", v) for k, (_n, v) in enumerate(e.items)]


def force_devices(s: M.Schema, devs: List[str], pick: Any) -> None:
    for im in s.impls:
        im.fields = [(k, v) for k, v in im.fields if k != "device"] + [("device", pick(devs))]
        im.order = None


@st.composite
def program(draw, n_values: int, periods: bool = False, twin: bool = False):
    s = draw(CS.can_schema(c_cfg(periods)))
    uniquify_enumerators(s)
    devs = draw(st.lists(CS.can_device, min_size=1, max_size=3, unique=True))
    force_devices(s, devs, lambda d: draw(st.sampled_from(d)))
    # a second binding of the same struct that asks for big-endian signals (outside the checked subset) declared
    # BEFORE the plain one: the plain binding must not inherit anything from it
    if twin and draw(st.integers(0, 2)) == 0:
        plain = [im for im in s.impls if im.protocol == "can"]
        im = draw(st.sampled_from(plain))
        wide = [f for f in s.struct(im.type).fields if isinstance(f.type, (M.U, M.I)) and f.type.n in (16, 32)]
        if wide:
            f = draw(st.sampled_from(wide))
            used_ids = {M.plain_value(i.get("id")) for i in plain}
            new_id = draw(st.integers(0, 2047).filter(lambda x: x not in used_ids))
            twin = M.Impl("can", im.type, im.type + "Be", [("id", new_id), ("device", CH.device_of(im))],
                          [M.SignalBlock(f.name, [("endianness", "big"), ("endianess", "big")])])
            s.decls.insert(s.decls.index(im), twin)
    vals: Dict[str, List[Dict[str, Any]]] = {}
    vcfg = S.ValCfg(finite_floats=True)
    for im in CH.can_messages(s):
        vals[im.eff_name] = draw(st.lists(S.struct_value(s, im.type, vcfg), min_size=2, max_size=n_values))
    return s, vals


def generate_c(fcp: Any, out_dir: str) -> Tuple[Optional[Dict[str, str]], Optional[str]]:
    import fcp_can_c

    try:
        res = fcp_can_c.Generator().generate(fcp, {"output": out_dir})
    except Exception as e:
        return None, f"{type(e).__name__}: {e}"
    files = {}
    for r in res:
        rel = os.path.relpath(str(r["path"]), out_dir)
        files[rel] = str(r["contents"])
    return files, None


def build(s: M.Schema, fcp: Any, bd: cbuild.BuildDir, with_scheduler: bool = False) -> Tuple[Optional[str], Optional[str]]:
    """-> (exe path | None, failure message | None)."""
    gen_dir = bd.path("gen")
    files, err = generate_c(fcp, gen_dir)
    if files is None:
        return None, f"(a) fcp_can_c generation failed: {err}"
    for rel, text in files.items():
        bd.write(os.path.join("gen", rel), text)
    bd.write("driver.c", CH.driver_source(s, with_scheduler))
    srcs = [bd.path(os.path.join("gen", f)) for f in files if f.endswith(".c")] + [bd.path("driver.c")]
    ok, log = cbuild.compile_c(srcs, [gen_dir], bd.path("prog"))
    if not ok:
        errs = [l for l in log.split("\n") if "error" in l][:3]
        return None, f"(a) generated C does not compile: {errs}"
    return bd.path("prog"), None


def float_eq(a: float, b: float) -> bool:
    return a == b


def check_program(s: M.Schema, vals: Dict[str, List[Dict[str, Any]]], rec: Any = None, text: str = "") -> Optional[str]:
    fcp, _t, err = frontend.parse_schema(s)
    if fcp is None:
        return "__frontend__"
    msgs = CH.can_messages(s)
    with cbuild.BuildDir("verif-c06-") as bd:
        exe, msg = build(s, fcp, bd)
        if exe is None:
            return msg
        if rec is not None:
            rec.cls("compiled")
        lines: List[str] = []
        plan: List[Tuple[str, int, Dict[str, Any]]] = []
        for k, im in enumerate(msgs):
            if im.signals:
                if rec is not None:
                    rec.cls("twin_binding_with_signal_block")
                continue  # byte-order options are outside the advertised subset: compiled, not compared
            leaves = reflayout.layout(s, im.type, True)
            for v in vals[im.eff_name]:
                lines.append(f"E {k} " + " ".join(CH.raw_args(s, leaves, v)))
                plan.append(("E", k, v))
                word = reflayout.pack(s, leaves, v)
                lines.append(f"D {k} {word:x}")
                plan.append(("D", k, v))
        rc, out, errtail = cbuild.run_lines(exe, lines)
        out = [l for l in out if l.strip()]
        if rc != 0 or len(out) != len(plan):
            return f"(b) driver exited with {rc} after {len(out)}/{len(plan)} answers: {errtail[-200:]}"
        for (op, k, v), line in zip(plan, out):
            im = msgs[k]
            leaves = reflayout.layout(s, im.type, True)
            bits = reflayout.total_bits(leaves)
            parts = line.split()
            if rec is not None:
                rec.eval()
                cl = classes_of_msg(s, leaves)
                rec.cls(*cl)
                if len(leaves) >= 2 and set(cl) & {"float_at_offset", "signed_at_offset", "odd_width", "enum"}:
                    rec.nt([text, im.eff_name, op, repr(v)])
                    rec.sample({"schema": text, "message": im.eff_name, "op": op, "value": repr(v), "answer": line})
            if op == "E":
                if parts[0] != "E":
                    return f"(b) unexpected driver answer {line!r}"
                fid, dlc, data = int(parts[1]), int(parts[2]), bytes.fromhex(parts[3])
                want = reflayout.pack(s, leaves, v).to_bytes(8, "little")
                if fid != M.plain_value(im.get("id")):
                    return f"(b) {im.eff_name}: frame id {fid} != binding id {im.get('id')}"
                if dlc != math.ceil(bits / 8):
                    return f"(b) {im.eff_name}: dlc {dlc} != ceil({bits}/8)"
                if data != want:
                    return f"(b) {im.eff_name}: encode({v!r}) data {data.hex()} != layout packing {want.hex()}"
            else:
                if parts[0] != "D":
                    return f"(c) unexpected driver answer {line!r}"
                got = CH.parse_decoded(s, leaves, parts[1:])
                for lf in leaves:
                    w = reflayout.get_path(v, lf.path)
                    g = got[lf.name]
                    if isinstance(lf.type, (M.F32, M.F64)):
                        ok = float_eq(g, w)
                    elif isinstance(lf.type, M.I):
                        ok = g == w
                    else:
                        ok = (g & ((1 << 64) - 1)) == w
                    if not ok:
                        frame = reflayout.pack(s, leaves, v).to_bytes(8, "little").hex()
                        return f"(c) {im.eff_name}.{lf.name} ({M.type_text(lf.type)} at bit {lf.start}): decode({frame}) = {g!r}, packed value was {w!r}"
    return None


def classes_of_msg(s: M.Schema, leaves: List[reflayout.Leaf]) -> List[str]:
    cl = set()
    for lf in leaves:
        if isinstance(lf.type, (M.F32, M.F64)) and lf.start > 0:
            cl.add("float_at_offset")
        if isinstance(lf.type, M.I) and lf.start > 0:
            cl.add("signed_at_offset")
        if isinstance(lf.type, (M.U, M.I)) and lf.width not in (8, 16, 32, 64):
            cl.add("odd_width")
        if isinstance(lf.type, M.EnumRef):
            cl.add("enum")
    return sorted(cl)


def run_shard(ctx: Ctx) -> None:
    rec = ctx.rec

    def body(c: Any) -> None:
        s, vals = c
        rec.frontend_attempts += 1
        text = printer.to_text(s)
        msg = check_program(s, vals, rec, text)
        if msg == "__frontend__":
            rec.rejected_by_frontend += 1
            return
        rec.cls("program")
        if msg:
            raise Violation(msg, {"schema_text": text, "pickle": pickle_b64((s, vals))})

    hyp_run(ctx, program(ctx.pick(24, 120), twin=True), body, ctx.n(1600, 5000), shrink_cap=60)


def replay(c: Dict[str, Any]) -> Optional[str]:
    s, vals = unpickle_b64(c["pickle"])
    msg = check_program(s, vals)
    if msg == "__frontend__":
        raise HarnessError("front end rejects the replay schema")
    return msg
