"""C20 — module imports are transparent."""

from __future__ import annotations

import os
from typing import Any, Dict, List, Optional, Tuple

from hypothesis import strategies as st

from vlib import expected_tree as ET
from vlib import model as M
from vlib import modules as MO
from vlib import printer
from vlib.runner import Ctx, HarnessError, Violation, hyp_run, pickle_b64, unpickle_b64

LEVEL = "exploration"
OWNS_PARSING = True
RULE = (
    "Hypothesis-generated trees of modules (depth <= 3, dotted paths, sub-directories, every declaration kind inside "
    "modules; each module only uses types visible inside it; some file names are reused in different directories, including "
    "byte-identical index modules whose imports resolve to different leaf files) written as real files to a scratch directory; the single-file "
    "schema is the in-order inlining. Oracle (a) get_fcp(root).to_dict() — absolute path, relative path from another cwd, "
    "a path with '..', a path through a symlinked directory — == get_fcp_from_string(inlined).to_dict() == tree built from the description; (b) one injected fault in a chosen "
    "module (illegal character, unterminated declaration, undeclared type, missing file) => Err (never Ok, never an "
    "exception) whose rendered diagnostic or message chain contains the module's name (missing file: the file name). "
    "Non-trivial = >= 2 modules with one nested/dotted, or a module declaring a service/device/binding, or a fault below "
    "depth 1; distinct by sha1(file map, fault)."
)
ASSUMPTIONS = [
    "module path components are globally unique in a tree (no same-named files in different directories)",
    "a module is self-contained: it uses only types it declares or imports itself",
]
FLOORS = {
    "nested_or_dotted": 0.10,
    "module_with_extras": 0.10,
    "fault": 0.15,
    "fault_below_depth1": 0.05,
    "relative_path": 0.15,
    "same_file_name_in_different_dirs": 0.05,
    "non_canonical_path": 0.2,
    "identical_modules_in_different_dirs": 0.02,
}

FAULTS = ["illegal_char", "unterminated", "undeclared_type", "missing_file", "semantic"]


@st.composite
def case(draw):
    tree = draw(MO.module_tree(3, True))
    mods = MO.module_files(tree)
    fault = None
    if mods and draw(st.integers(0, 2)) != 0:
        idx = draw(st.integers(0, len(mods) - 1))
        fault = (draw(st.sampled_from(FAULTS)), idx, draw(st.integers(0, 5)))
    rel = draw(st.sampled_from([False, True, "dotdot", "symlink", "cwd_sub"]))
    return tree, fault, rel


def apply_fault(files: Dict[str, str], mods: List[Tuple[str, M.Schema, int]], fault: Tuple[str, int, int]) -> Dict[str, str]:
    kind, idx, k = fault
    path = mods[idx][0]
    files = dict(files)
    text = files[path]
    if kind == "missing_file":
        del files[path]
    elif kind == "illegal_char":
        parts = text.split("\n\n")
        pos = 1 + k % max(1, len(parts) - 1)
        parts.insert(min(pos, len(parts)), ["$", "#", "€ x", "struct ?"][k % 4])
        files[path] = "\n\n".join(parts)
    elif kind == "unterminated":
        files[path] = text.rstrip()[:-1]
    elif kind == "undeclared_type":
        files[path] = text + "\nstruct Zq9Tail {\nq @ 0 : NoSuchTypeQ ,\n}\n"
    elif kind == "semantic":
        # syntactically fine, rejected by a transformer action (unknown field parameter / empty enumeration)
        files[path] = text + ["\nstruct Zq9Tail {\nq @ 0 : u8 | nosuchparamq ( 1 ) ,\n}\n", "\nenum Zq9Tail {\n}\n"][k % 2]
    return files


def classes_of(tree: M.Schema, fault: Any, rel: bool) -> List[str]:
    mods = MO.module_files(tree)
    cl = []
    texts = [(os.path.basename(p), printer.to_text(s_)) for p, s_, _d in mods]
    if len(set(texts)) < len(texts):
        cl.append("identical_modules_in_different_dirs")
    bases = [os.path.basename(p) for p, _s, _d in mods] + ["main.fcp"]
    if len(set(bases)) < len(bases):
        cl.append("same_file_name_in_different_dirs")
    if len(mods) >= 1:
        cl.append("has_module")
    if len(mods) >= 2 and any(d >= 2 or "/" in p for p, _s, d in mods):
        cl.append("nested_or_dotted")
    if any(any(isinstance(x, (M.Service, M.Device, M.Impl)) for x in s.decls) for _p, s, _d in mods):
        cl.append("module_with_extras")
    if fault:
        cl.append("fault")
        cl.append("fault_" + fault[0])
        if mods[fault[1]][2] >= 2:
            cl.append("fault_below_depth1")
    if rel:
        cl.append("relative_path")
    if rel in ("dotdot", "symlink", "cwd_sub"):
        cl.append("non_canonical_path")
    return cl


def check(tree: M.Schema, fault: Any, rel: bool) -> Optional[str]:
    files = MO.files_of(tree)
    mods = MO.module_files(tree)
    if fault:
        files = apply_fault(files, mods, fault)
    with MO.Scratch("verif-c20-") as sc:
        sc.write(files)
        root = sc.path("main.fcp")
        if rel == "dotdot":
            # a non-canonical spelling of the same absolute path
            os.makedirs(sc.path("build"), exist_ok=True)
            kind, res, logger = MO.get_fcp_logged(os.path.join(sc.dir, "build", "..", "main.fcp"))
        elif rel == "symlink":
            link = sc.dir + "-link"
            os.symlink(sc.dir, link)
            try:
                kind, res, logger = MO.get_fcp_logged(os.path.join(link, "main.fcp"))
            finally:
                os.unlink(link)
        elif rel == "cwd_sub":
            # relative path with '..' from a sub-directory of the schema directory
            os.makedirs(sc.path("build"), exist_ok=True)
            cwd = os.getcwd()
            os.chdir(sc.path("build"))
            try:
                kind, res, logger = MO.get_fcp_logged(os.path.join("..", "main.fcp"))
            finally:
                os.chdir(cwd)
        elif rel:
            cwd = os.getcwd()
            other = os.path.dirname(sc.dir)
            os.chdir(other)
            try:
                kind, res, logger = MO.get_fcp_logged(os.path.relpath(root, other))
            finally:
                os.chdir(cwd)
        else:
            kind, res, logger = MO.get_fcp_logged(root)
        if fault:
            mpath = mods[fault[1]][0]
            stem = os.path.basename(mpath)[: -len(".fcp")]
            if kind == "exc":
                return f"(b) fault {fault[0]} in {mpath}: exception {type(res).__name__}: {res}"
            if kind == "ok":
                return f"(b) fault {fault[0]} in {mpath}: schema accepted"
            diag, rexc = MO.render(logger, res)
            chain = repr(res) + "\n" + (diag or "")
            if rexc is not None:
                return f"(b) fault {fault[0]} in {mpath}: the error cannot be rendered ({rexc})"
            needle = os.path.basename(mpath) if fault[0] == "missing_file" else stem
            if needle not in chain:
                return f"(b) fault {fault[0]} in {mpath}: error does not name '{needle}': {chain[:400]}"
            return None
        if kind != "ok":
            extra = ""
            if kind == "err":
                extra = repr(res)
            return f"(a) split schema not accepted ({kind}: {type(res).__name__} {res if kind == 'exc' else extra})"[:600]
        got = res.to_dict()
    inl = tree.inlined()
    kind2, res2, _l = MO.parse_text_logged(printer.to_text(inl))
    if kind2 != "ok":
        return f"(a) the inlined single-file schema is not accepted ({kind2}: {res2!r})"[:600]
    single = res2.to_dict()
    if not ET.strict_eq(got, single):
        return "(a) split != single-file at " + ET.first_diff(got, single)
    want = ET.to_dict_expected(tree)
    if not ET.strict_eq(got, want):
        return "(a) split tree != description at " + ET.first_diff(got, want)
    return None


# ----------------------------------------------------------------- edit sessions (one directory, several loads)
EDITS = ["restore", "strip", "swap_kinds", "fault", "fault", "touch_only"]


@st.composite
def session(draw):
    """A module tree in ONE directory that is edited in place and re-loaded 2-4 times by the same process: a module is
    emptied (its types vanish), its enums and structs trade places, a fault is typed into it and removed again.  Only the
    files whose text changes are re-written, so every other file keeps its time stamp."""
    tree = draw(MO.module_tree(3, True))
    mods = MO.module_files(tree)
    steps = []
    for _ in range(draw(st.integers(2, 4))):
        kind = draw(st.sampled_from(EDITS)) if mods else "restore"
        idx = draw(st.integers(0, len(mods) - 1)) if mods else 0
        steps.append((kind, idx, draw(st.sampled_from(FAULTS)), draw(st.integers(0, 5))))
    return tree, steps


def edited_tree(tree: M.Schema, kind: str, idx: int) -> M.Schema:
    import copy

    t = copy.deepcopy(tree)
    mods = MO.module_files(t)
    if not mods or kind not in ("strip", "swap_kinds"):
        return t
    sch = mods[idx][1]
    if kind == "strip":
        sch.decls = [d for d in sch.decls if isinstance(d, M.Mod)] + [M.Enum("Zq9Keep", [("K", 0)])]
    else:
        # every enum of the module becomes a struct of the same name; references to it (anywhere in the tree) then
        # are struct references
        swapped = {d.name for d in sch.decls if isinstance(d, M.Enum)}
        sch.decls = [M.Struct(d.name, [M.Field("swapped", 0, M.U(8))]) if isinstance(d, M.Enum) else d for d in sch.decls]

        def fix(ty: M.Type) -> M.Type:
            if isinstance(ty, M.EnumRef) and ty.name in swapped:
                return M.StructRef(ty.name)
            if isinstance(ty, M.Arr):
                return M.Arr(fix(ty.t), ty.n)
            if isinstance(ty, M.Dyn):
                return M.Dyn(fix(ty.t))
            if isinstance(ty, M.Opt):
                return M.Opt(fix(ty.t))
            return ty

        def walk(sc_: M.Schema) -> None:
            for d in sc_.decls:
                if isinstance(d, M.Struct):
                    for f in d.fields:
                        f.type = fix(f.type)
                elif isinstance(d, M.Mod) and d.schema is not None:
                    walk(d.schema)

        walk(t)
    return t


def check_session(tree: M.Schema, steps: List[Tuple[str, int, str, int]], rec: Any = None) -> Optional[str]:
    with MO.Scratch("verif-c20s-") as sc:
        on_disk: Dict[str, str] = {}
        root = sc.path("main.fcp")
        for n, (kind, idx, fkind, k) in enumerate(steps):
            cur = edited_tree(tree, kind, idx)
            files = MO.files_of(cur)
            mods = MO.module_files(cur)
            fault = None
            if kind == "fault" and mods:
                fault = (fkind, idx, k)
                files = apply_fault(files, mods, fault)
            # synchronise the directory: write only what changed, remove what is gone
            for rel in list(on_disk):
                if rel not in files:
                    os.unlink(sc.path(rel))
                    del on_disk[rel]
            for rel, text in files.items():
                if on_disk.get(rel) != text:
                    pth = sc.path(rel)
                    os.makedirs(os.path.dirname(pth), exist_ok=True)
                    with open(pth, "w") as f:
                        f.write(text)
                    on_disk[rel] = text
            kind_r, res, logger = MO.get_fcp_logged(root)
            where = f"load #{n + 1} of an edited tree (edit '{kind}'" + (f", fault {fkind}" if fault else "") + ")"
            if rec is not None:
                rec.cls("session_load", "session_edit_" + kind)
            if kind_r == "exc":
                return f"{where}: exception {type(res).__name__}: {res}"
            if fault:
                mpath = mods[idx][0]
                if kind_r == "ok":
                    return f"{where}: (b) schema accepted although {mpath} contains a fault"
                diag, rexc = MO.render(logger, res)
                if rexc is not None:
                    return f"{where}: (b) the error cannot be rendered ({rexc})"
                needle = os.path.basename(mpath) if fkind == "missing_file" else os.path.basename(mpath)[: -len(".fcp")]
                if needle not in repr(res) + "\n" + (diag or ""):
                    return f"{where}: (b) error does not name '{needle}': {(repr(res) + (diag or ''))[:300]}"
                continue
            kind2, res2, _l = MO.parse_text_logged(printer.to_text(cur.inlined()))
            if kind2 == "exc":
                raise HarnessError(f"single-file parse raised {res2!r}")
            if kind2 == "err":
                # the edited tree is ill-formed as a single file too (a stripped module leaves references dangling)
                if rec is not None:
                    rec.cls("session_illformed_after_edit")
                if kind_r == "ok":
                    return (f"{where}: the split schema is accepted although the single-file schema is rejected "
                            f"({repr(res2)[:160]})")
                diag, rexc = MO.render(logger, res)
                if rexc is not None:
                    return f"{where}: the error cannot be rendered ({rexc})"
                continue
            if kind_r != "ok":
                return f"{where}: (a) split schema not accepted although the single-file schema is ({repr(res)[:300]})"
            got, single = res.to_dict(), res2.to_dict()
            if not ET.strict_eq(got, single):
                return f"{where}: (a) split != single-file at " + ET.first_diff(got, single)
            want = ET.to_dict_expected(cur)
            if not ET.strict_eq(got, want):
                return f"{where}: (a) split tree != description at " + ET.first_diff(got, want)
    return None


def run_sessions(ctx: Ctx, quick: int, thorough: int) -> None:
    """The edit-session sub-run, shared with C07 (the tree is the image of the text that is on disk NOW) and C08 (no
    dangling or mis-kinded reference survives an edit of the module that declared the type)."""
    rec = ctx.rec

    def body_session(c: Any) -> None:
        tree, steps = c
        rec.eval()
        rec.cls("edit_session")
        files = MO.files_of(tree)
        if MO.module_files(tree):
            rec.nt([files, [list(x) for x in steps]])
        msg = check_session(tree, steps, rec)
        if msg:
            raise Violation(msg, {"kind": "session", "tree_pickle": pickle_b64(tree), "steps": [list(x) for x in steps],
                                  "files": files})

    hyp_run(ctx, session(), body_session, ctx.n(quick, thorough), tag="session", shrink_cap=40)


def run_shard(ctx: Ctx) -> None:
    rec = ctx.rec
    run_sessions(ctx, 480, 8000)

    def body(c: Any) -> None:
        tree, fault, rel = c
        files = MO.files_of(tree)
        cl = classes_of(tree, fault, rel)
        rec.eval()
        rec.cls(*cl)
        if set(cl) & {"nested_or_dotted", "module_with_extras", "fault_below_depth1"}:
            rec.nt([files, list(fault) if fault else None, rel])
            rec.sample({"files": files, "fault": list(fault) if fault else None, "relative": rel})
        msg = check(tree, fault, rel)
        if msg:
            raise Violation(msg, {"tree_pickle": pickle_b64(tree), "fault": list(fault) if fault else None,
                                  "relative": rel, "files": files})

    hyp_run(ctx, case(), body, ctx.n(3000, 25000), shrink_cap=150)


def replay(c: Dict[str, Any]) -> Optional[str]:
    if c.get("kind") == "session":
        return check_session(unpickle_b64(c["tree_pickle"]), [tuple(x) for x in c["steps"]])
    tree = unpickle_b64(c["tree_pickle"])
    fault = tuple(c["fault"]) if c["fault"] else None
    return check(tree, fault, c["relative"])
