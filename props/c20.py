"""C20 — module imports are transparent."""

from __future__ import annotations

import os
from typing import Any, Dict, List, Optional, Tuple

from hypothesis import strategies as st

from vlib import expected_tree as ET
from vlib import model as M
from vlib import modules as MO
from vlib import printer
from vlib.runner import Ctx, HarnessError, Violation, hyp_run, pickle_b64, unpickle_b64

LEVEL = "exploration"
OWNS_PARSING = True
RULE = (
    "Hypothesis-generated trees of modules (depth <= 3, dotted paths, sub-directories, every declaration kind inside "
    "modules; each module only uses types visible inside it; some file names are reused in different directories, including "
    "byte-identical index modules whose imports resolve to different leaf files) written as real files to a scratch directory; the single-file "
    "schema is the in-order inlining. Oracle (a) get_fcp(root).to_dict() — absolute path, relative path from another cwd, "
    "a path with '..', a path through a symlinked directory — == get_fcp_from_string(inlined).to_dict() == tree built from the description; (b) one injected fault in a chosen "
    "module (illegal character, unterminated declaration, undeclared type, missing file) => Err (never Ok, never an "
    "exception) whose rendered diagnostic or message chain contains the module's name (missing file: the file name). "
    "Non-trivial = >= 2 modules with one nested/dotted, or a module declaring a service/device/binding, or a fault below "
    "depth 1; distinct by sha1(file map, fault)."
)
ASSUMPTIONS = [
    "module path components are globally unique in a tree (no same-named files in different directories)",
    "a module is self-contained: it uses only types it declares or imports itself",
]
FLOORS = {
    "nested_or_dotted": 0.10,
    "module_with_extras": 0.10,
    "fault": 0.15,
    "fault_below_depth1": 0.05,
    "relative_path": 0.15,
    "same_file_name_in_different_dirs": 0.05,
    "non_canonical_path": 0.2,
    "identical_modules_in_different_dirs": 0.02,
}

FAULTS = ["illegal_char", "unterminated", "undeclared_type", "missing_file"]


@st.composite
def case(draw):
    tree = draw(MO.module_tree(3, True))
    mods = MO.module_files(tree)
    fault = None
    if mods and draw(st.integers(0, 2)) != 0:
        idx = draw(st.integers(0, len(mods) - 1))
        fault = (draw(st.sampled_from(FAULTS)), idx, draw(st.integers(0, 5)))
    rel = draw(st.sampled_from([False, True, "dotdot", "symlink", "cwd_sub"]))
    return tree, fault, rel


def apply_fault(files: Dict[str, str], mods: List[Tuple[str, M.Schema, int]], fault: Tuple[str, int, int]) -> Dict[str, str]:
    kind, idx, k = fault
    path = mods[idx][0]
    files = dict(files)
    text = files[path]
    if kind == "missing_file":
        del files[path]
    elif kind == "illegal_char":
        parts = text.split("\n\n")
        pos = 1 + k % max(1, len(parts) - 1)
        parts.insert(min(pos, len(parts)), ["$", "#", "€ x", "struct ?"][k % 4])
        files[path] = "\n\n".join(parts)
    elif kind == "unterminated":
        files[path] = text.rstrip()[:-1]
    elif kind == "undeclared_type":
        files[path] = text + "\nstruct Zq9Tail {\nq @ 0 : NoSuchTypeQ ,\n}\n"
    return files


def classes_of(tree: M.Schema, fault: Any, rel: bool) -> List[str]:
    mods = MO.module_files(tree)
    cl = []
    texts = [(os.path.basename(p), printer.to_text(s_)) for p, s_, _d in mods]
    if len(set(texts)) < len(texts):
        cl.append("identical_modules_in_different_dirs")
    bases = [os.path.basename(p) for p, _s, _d in mods] + ["main.fcp"]
    if len(set(bases)) < len(bases):
        cl.append("same_file_name_in_different_dirs")
    if len(mods) >= 1:
        cl.append("has_module")
    if len(mods) >= 2 and any(d >= 2 or "/" in p for p, _s, d in mods):
        cl.append("nested_or_dotted")
    if any(any(isinstance(x, (M.Service, M.Device, M.Impl)) for x in s.decls) for _p, s, _d in mods):
        cl.append("module_with_extras")
    if fault:
        cl.append("fault")
        cl.append("fault_" + fault[0])
        if mods[fault[1]][2] >= 2:
            cl.append("fault_below_depth1")
    if rel:
        cl.append("relative_path")
    if rel in ("dotdot", "symlink", "cwd_sub"):
        cl.append("non_canonical_path")
    return cl


def check(tree: M.Schema, fault: Any, rel: bool) -> Optional[str]:
    files = MO.files_of(tree)
    mods = MO.module_files(tree)
    if fault:
        files = apply_fault(files, mods, fault)
    with MO.Scratch("verif-c20-") as sc:
        sc.write(files)
        root = sc.path("main.fcp")
        if rel == "dotdot":
            # a non-canonical spelling of the same absolute path
            os.makedirs(sc.path("build"), exist_ok=True)
            kind, res, logger = MO.get_fcp_logged(os.path.join(sc.dir, "build", "..", "main.fcp"))
        elif rel == "symlink":
            link = sc.dir + "-link"
            os.symlink(sc.dir, link)
            try:
                kind, res, logger = MO.get_fcp_logged(os.path.join(link, "main.fcp"))
            finally:
                os.unlink(link)
        elif rel == "cwd_sub":
            # relative path with '..' from a sub-directory of the schema directory
            os.makedirs(sc.path("build"), exist_ok=True)
            cwd = os.getcwd()
            os.chdir(sc.path("build"))
            try:
                kind, res, logger = MO.get_fcp_logged(os.path.join("..", "main.fcp"))
            finally:
                os.chdir(cwd)
        elif rel:
            cwd = os.getcwd()
            other = os.path.dirname(sc.dir)
            os.chdir(other)
            try:
                kind, res, logger = MO.get_fcp_logged(os.path.relpath(root, other))
            finally:
                os.chdir(cwd)
        else:
            kind, res, logger = MO.get_fcp_logged(root)
        if fault:
            mpath = mods[fault[1]][0]
            stem = os.path.basename(mpath)[: -len(".fcp")]
            if kind == "exc":
                return f"(b) fault {fault[0]} in {mpath}: exception {type(res).__name__}: {res}"
            if kind == "ok":
                return f"(b) fault {fault[0]} in {mpath}: schema accepted"
            diag, rexc = MO.render(logger, res)
            chain = repr(res) + "\n" + (diag or "")
            if rexc is not None:
                return f"(b) fault {fault[0]} in {mpath}: the error cannot be rendered ({rexc})"
            needle = os.path.basename(mpath) if fault[0] == "missing_file" else stem
            if needle not in chain:
                return f"(b) fault {fault[0]} in {mpath}: error does not name '{needle}': {chain[:400]}"
            return None
        if kind != "ok":
            extra = ""
            if kind == "err":
                extra = repr(res)
            return f"(a) split schema not accepted ({kind}: {type(res).__name__} {res if kind == 'exc' else extra})"[:600]
        got = res.to_dict()
    inl = tree.inlined()
    kind2, res2, _l = MO.parse_text_logged(printer.to_text(inl))
    if kind2 != "ok":
        return f"(a) the inlined single-file schema is not accepted ({kind2}: {res2!r})"[:600]
    single = res2.to_dict()
    if not ET.strict_eq(got, single):
        return "(a) split != single-file at " + ET.first_diff(got, single)
    want = ET.to_dict_expected(tree)
    if not ET.strict_eq(got, want):
        return "(a) split tree != description at " + ET.first_diff(got, want)
    return None


def run_shard(ctx: Ctx) -> None:
    rec = ctx.rec

    def body(c: Any) -> None:
        tree, fault, rel = c
        files = MO.files_of(tree)
        cl = classes_of(tree, fault, rel)
        rec.eval()
        rec.cls(*cl)
        if set(cl) & {"nested_or_dotted", "module_with_extras", "fault_below_depth1"}:
            rec.nt([files, list(fault) if fault else None, rel])
            rec.sample({"files": files, "fault": list(fault) if fault else None, "relative": rel})
        msg = check(tree, fault, rel)
        if msg:
            raise Violation(msg, {"tree_pickle": pickle_b64(tree), "fault": list(fault) if fault else None,
                                  "relative": rel, "files": files})

    hyp_run(ctx, case(), body, ctx.n(3000, 25000))


def replay(c: Dict[str, Any]) -> Optional[str]:
    tree = unpickle_b64(c["tree_pickle"])
    fault = tuple(c["fault"]) if c["fault"] else None
    return check(tree, fault, c["relative"])
