"""C07 — parsing is the inverse of printing."""

from __future__ import annotations

from typing import Any, Dict, List, Optional

from hypothesis import strategies as st

from vlib import expected_tree as ET
from vlib import frontend, printer
from vlib import model as M
from vlib import strategies as S
from vlib.runner import Ctx, HarnessError, Violation, hyp_run, pickle_b64, unpickle_b64

LEVEL = "exploration"
OWNS_PARSING = True
RULE = (
    "Hypothesis-generated schema descriptions over every production (structs with units/ranges/all type nestings, enums, "
    "bindings plain and 'as'-renamed with extension values of every form — negative ints, floats in several spellings, "
    "strings, identifiers, nested arrays — and signal blocks, services/methods, devices, at any position), identifiers from "
    "the plain pool and, for type names, a pool of names that begin like a builtin type (u8x, i2c, f32vec, strx ...). "
    "Oracle (a) get_fcp_from_string(print(d)).unwrap().to_dict() == tree built from d alone (type-strict, order-sensitive, "
    "one default binding per struct at the struct's position); (b) 2 further renderings with random whitespace/tab/newline "
    "runs, /* */ and // comments at any token boundary, optional '|' and ',' separators, optional 'as', '+5' spellings give "
    "the identical dict. Non-trivial = >= 3 different productions and one of {type depth >= 2, >= 2 params on a field, "
    "'as' + signal block, array/negative/float extension value, comment inside a declaration, tricky identifier}; distinct "
    "by sha1(canonical text)."
)
ASSUMPTIONS = [
    "strings exclude '\"', backslash and newline (the parser returns the raw text between the quotes)",
    "grammar keywords and the key 'meta' are not used as identifiers; ranges are written as float literals",
    "field ids / enum values are integer literals; extension keys unique per block",
]
FLOORS = {
    "depth_ge2": 0.05,
    "two_params": 0.02,
    "as_and_block": 0.02,
    "rich_ext_value": 0.10,
    "tricky_ident": 0.05,
    "service": 0.06,
    "device": 0.06,
}

WS = [" ", "\n", "\t", "  ", " \n", "\n\n\t", " \t "]


def cfg(tier: str, tricky: bool) -> S.FullCfg:
    type_names = S.pascal_ident
    if tricky:
        type_names = st.one_of(S.pascal_ident, S.pascal_ident, st.sampled_from(S.TRICKY_DECL_NAMES))
    return S.FullCfg(
        data=S.SchemaCfg(types=S.TypeCfg(depth=3 if tier == "quick" else 5), units=True, ranges=True,
                         enum_max_bits=40, max_structs=4, max_fields=4, type_names=type_names,
                         field_names=S.any_ident),
        free_positions=True,
    )


def render_variant(d: M.Schema, rnd: Any) -> str:
    fmt = printer.DrawFmt(lambda: rnd.random() < 0.5, lambda a, b: rnd.randint(a, b))
    groups = printer.tokens(d, fmt)

    def sep(a: str, b: str) -> str:
        k = rnd.randint(0, 9)
        must = printer.needs_space(a, b)
        if k <= 3:
            return " " if must else ""
        if k <= 6:
            return rnd.choice(WS) if True else ""
        if k == 7:
            body = rnd.choice(["", "x", " struct S { a @0: u8, } ", "*", "/", "\"", "// nested", "\n\n", "**", " \\", "\\\n",
                               "* /", "/ *", "/*", "\n// x\n", "*\n*", " \u00e9\u65e5 ", "\\", " a\\\nb ", "'"])
            return ("" if not must else " ") + "/*" + body + "*/" + rnd.choice(["", " ", "\n"])
        if k == 8:
            body = rnd.choice(["", " c", " impl can for X {", "/* */", "\"unterminated", "\t*/", "\\", " ends with a backslash \\",
                               " c:\\dir\\", " \\\\", "/*", " \\ ", " }", " \u00e9\u65e5", "// again", "'", " \\t"])
            return rnd.choice(["", " "]) + "//" + body + "\n"
        return rnd.choice(WS) + rnd.choice(WS)

    # \r is not in the grammar's ignore list: drop it from the pool effect by replacing
    text = printer.join_tokens(groups, sep)
    # blanks / comments before the preamble and after the last declaration
    lead = rnd.choice(["", "", " ", "\n\n", "/* header */", "// header\n", "\t/**/\n"])
    trail = rnd.choice(["", "", "\n", " ", "/* eof */", "// eof", "// eof\n", "\n\n\t"])
    return lead + text + trail


def classes_of(d: M.Schema) -> List[str]:
    cl: List[str] = []
    prods = set()
    for x in d.decls:
        prods.add(type(x).__name__)
    fields = [f for s_ in d.structs for f in s_.fields]
    if any(M.type_depth(f.type) >= 2 for f in fields):
        cl.append("depth_ge2")
    if any(f.unit is not None and f.rng is not None for f in fields):
        cl.append("two_params")
    if any(i.name is not None and i.signals for i in d.impls):
        cl.append("as_and_block")

    def rich(v: Any) -> bool:
        if isinstance(v, list):
            return True
        if isinstance(v, M.Num):
            return True
        if isinstance(v, float):
            return True
        if isinstance(v, int) and v < 0:
            return True
        return False

    vals = [v for i in d.impls for _, v in i.fields] + [v for i in d.impls for sb in i.signals for _, v in sb.fields]
    vals += [v for dv in d.devices for _, v in dv.fields]
    if any(rich(v) for v in vals):
        cl.append("rich_ext_value")
    if any(S.is_tricky(x.name) for x in d.decls if isinstance(x, (M.Struct, M.Enum))):
        cl.append("tricky_ident")
    if d.services:
        cl.append("service")
    if d.devices:
        cl.append("device")
    if len(prods) >= 3:
        cl.append("ge3_productions")
    return cl


def parse_dict(text: str) -> Any:
    """-> ('ok', dict) | ('err', str) | ('exc', str)"""
    try:
        r = frontend.parse_text(text)
    except Exception as e:
        return "exc", f"{type(e).__name__}: {e}"
    if r.is_err():
        return "err", repr(r.err())
    try:
        return "ok", r.unwrap().to_dict()
    except Exception as e:
        return "exc", f"to_dict raised {type(e).__name__}: {e}"


def check_text(d: M.Schema, text: str, label: str) -> Optional[str]:
    want = ET.to_dict_expected(d)
    kind, got = parse_dict(text)
    if kind != "ok":
        return f"{label}: well-formed text was not accepted ({kind}: {str(got)[:300]})"
    if not ET.strict_eq(got, want):
        return f"{label}: tree differs from the description at " + ET.first_diff(got, want)
    return None


def run_shard(ctx: Ctx) -> None:
    rec = ctx.rec

    def body(case: Any) -> None:
        d, rnd = case
        text = printer.to_text(d)
        cl = classes_of(d)
        rec.eval()
        rec.cls(*cl)
        if "ge3_productions" in cl and set(cl) & {"depth_ge2", "two_params", "as_and_block", "rich_ext_value",
                                                  "tricky_ident"}:
            rec.nt(text)
            rec.sample({"schema": text, "classes": cl})
        base = {"schema_pickle": pickle_b64(d), "canonical_text": text}
        msg = check_text(d, text, "(a) canonical rendering")
        if msg:
            raise Violation(msg, {**base, "text": text})
        for i in range(2):
            vt = render_variant(d, rnd)
            rec.eval()
            rec.cls("variant")
            if "/*" in vt or "//" in vt:
                rec.cls("variant_with_comment")
            msg = check_text(d, vt, f"(b) formatting variant {i}")
            if msg:
                raise Violation(msg, {**base, "text": vt})

    strat = st.tuples(
        st.one_of(S.full_schema(cfg(ctx.tier, False)), S.full_schema(cfg(ctx.tier, True))),
        st.randoms(use_true_random=False),
    )
    hyp_run(ctx, strat, body, ctx.n(1500, 30000))
    # module trees edited in place and re-loaded by the same process: the tree must be the image of the text on disk NOW
    from props import c20

    c20.run_sessions(ctx, 240, 4000)


def replay_session(c: Dict[str, Any]) -> Optional[str]:
    from props import c20

    return c20.check_session(unpickle_b64(c["tree_pickle"]), [tuple(x) for x in c["steps"]])


def replay(case: Dict[str, Any]) -> Optional[str]:
    if case.get("kind") == "session":
        return replay_session(case)
    d = unpickle_b64(case["schema_pickle"])
    return check_text(d, case["text"], "replay")
