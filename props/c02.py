"""C02 — Python codec emits and accepts exactly the canonical wire format."""

from __future__ import annotations

from typing import Any, Dict, Optional

from vlib import codec_common as CC
from vlib import frontend, refcodec
from vlib.runner import REPO, Ctx, HarnessError, Violation, hyp_run, pickle_b64, unpickle_b64

LEVEL = "exploration"
ALSO_UNDER_O = True  # a second, smaller run in an interpreter started with -O
RULE = (
    "Same generator as C01 (incl. one case in four continued by 1-3 same-named edited variants of the schema and the "
    "original again, all in one interpreter, the previous schema object dropped before the next is loaded; in-place "
    "edits of the loaded schema object; calls expected to fail between the checked calls; a load/use/drop alternation "
    "sub-run; a small repeat under python -O). Oracle (a) bytes(serde.encode) == reference canonical encoder (independent "
    "re-implementation, self-tested on the 26 project vectors at start-up), (b) serde.decode(reference bytes) "
    "== value, (c) the project vectors themselves through the Python codec in both directions, (d) four directed values whose "
    "string / array counts do not fit 8 or 16 bits (256, 65535, 65536, 70001). Non-trivial = "
    ">= 2 fields, >= 2 encoded bytes and a sub-byte field, a length-prefixed field, an optional, or field ids "
    "out of declaration order; distinct by sha1(schema text, struct, value)."
)
ASSUMPTIONS = [
    "the reference codec is the specification (validated against tests/standardized/fcp_tests.json)",
    "fields are serialized in ascending field id (C15)",
    "enum field values are integers; strings 7-bit ASCII",
]
FLOORS = {
    "sub_byte": 0.05,
    "length_prefixed": 0.05,
    "ids_out_of_order": 0.05,
    "optional_some": 0.02,
    "misaligned_float": 0.02,
}


def preflight() -> None:
    try:
        refcodec.self_test()
    except AssertionError as e:
        raise HarnessError(f"reference codec self-test failed: {e}")


def check_value(fcp: Any, s: Any, name: str, v: Dict[str, Any], ref: bytes, known: Any = (),
                rec: Any = None) -> Optional[str]:
    from fcp import serde

    try:
        enc = bytes(serde.encode(fcp, name, v))
    except Exception as e:
        return f"encode raised {type(e).__name__}: {e}"
    if enc != ref:
        return f"(a) encode bytes {enc.hex()} != canonical {ref.hex()}"
    try:
        dec = serde.decode(fcp, name, bytearray(ref))
    except Exception as e:
        return f"(b) decode(canonical {ref.hex()}) raised {type(e).__name__}: {e}"
    v = CC.float_norm(s, CC.M.StructRef(name), v)
    if not refcodec.same_value(dec, v):
        if "PY-SIGNED-MIN" in known and CC.matches_signed_min_finding(s, name, v, dec):
            if rec is not None:
                rec.known("PY-SIGNED-MIN")
            return None
        return f"(b) decode(canonical {ref.hex()}) = {dec!r} != value"
    return None


def canaries(fid: str, record: Dict[str, Any]) -> bool:
    if fid != "PY-SIGNED-MIN":
        raise HarnessError(f"unknown finding id {fid}")
    from vlib import model as M

    s = M.Schema([M.Struct("A", [M.Field("a", 0, M.I(1))])])
    fcp, _t, err = frontend.parse_schema(s)
    if fcp is None:
        raise HarnessError(f"canary schema rejected: {err}")
    return check_value(fcp, s, "A", {"a": -1}, b"\x01") is not None


def check_vectors(known: Any = (), rec: Any = None) -> Optional[Dict[str, Any]]:
    """(c) the project's vectors through the Python codec, schemas parsed from the repo's own files."""
    from fcp import serde
    from fcp.error import Logger
    from fcp.parser import get_fcp

    cache: Dict[str, Any] = {}
    for sch, fname, dt, val, data, tname in refcodec.load_vectors():
        if fname not in cache:
            r = get_fcp(f"{REPO}/tests/standardized/{fname}", Logger({}))
            if r.is_err():
                raise HarnessError(f"front end rejects {fname}")
            cache[fname] = r.unwrap()
        fcp = cache[fname]
        msg = None
        try:
            enc = bytes(serde.encode(fcp, dt, val))
            if enc != data:
                msg = f"(c) vector {tname}: encode {enc.hex()} != {data.hex()}"
            else:
                dec = serde.decode(fcp, dt, bytearray(data))
                if not refcodec.same_value(dec, val):
                    if "PY-SIGNED-MIN" in known and CC.matches_signed_min_finding(sch, dt, val, dec):
                        if rec is not None:
                            rec.known("PY-SIGNED-MIN")
                    else:
                        msg = f"(c) vector {tname}: decode {dec!r} != {val!r}"
        except Exception as e:
            msg = f"(c) vector {tname}: raised {type(e).__name__}: {e}"
        if msg:
            return {"message": msg, "case": {"kind": "vector", "vector": tname, "schema_file": fname}}
    return None


def check_large_counts(known: Any, rec: Any) -> Optional[Dict[str, Any]]:
    """Directed cases for the 32-bit length prefixes: counts that do not fit 8 or 16 bits (256, 65536, 70001 ...)."""
    from vlib import model as M

    s = M.Schema([M.Struct("L", [M.Field("flag", 0, M.U(3)), M.Field("s", 2, M.Str()), M.Field("d", 1, M.Dyn(M.U(8)))])])
    fcp, text, err = frontend.parse_schema(s)
    if fcp is None:
        raise HarnessError(f"front end rejects the large-count schema: {err}")
    for ns, nd in ((256, 255), (65535, 65536), (65536, 3), (2, 70001)):
        v = {"flag": 5, "s": "ab" * (ns // 2) + "c" * (ns % 2), "d": [(i * 7) & 0xFF for i in range(nd)]}
        ref = refcodec.encode(s, "L", v)
        msg = check_value(fcp, s, "L", v, ref, known, rec)
        rec.eval()
        rec.cls("large_count")
        if msg:
            return {"message": f"string of {ns} / array of {nd} elements: {msg[:300]}",
                    "case": {"kind": "large_count", "ns": ns, "nd": nd}}
    return None


def run_shard(ctx: Ctx) -> None:
    rec = ctx.rec
    if ctx.shard == 1 % ctx.nshards:
        bad = check_large_counts(ctx.known, rec)
        if bad:
            rec.violations.append({**bad, "seed": ctx.base_seed, "shard": ctx.shard})
    if ctx.shard == 0:
        bad = check_vectors(ctx.known, rec)
        rec.extra["project_vectors_checked"] = len(refcodec.load_vectors())
        if bad:
            rec.violations.append({**bad, "seed": ctx.base_seed, "shard": 0})

    def body(steps: Any) -> None:
        import gc

        fcp = None
        for k, step in enumerate(steps):
            s, name, vals = step[:3]
            if len(step) > 3 and step[3] == "inplace":
                if fcp is None:
                    continue
                CC.renumber_in_place(fcp, s)
                text = "(the previous schema object, field ids and declaration order edited in place) " + CC.printer.to_text(s)
                rec.cls("after_in_place_edit")
            else:
                fcp = None
                gc.collect()
                rec.frontend_attempts += 1
                fcp, text, err = frontend.parse_schema(s)
                if fcp is None:
                    rec.rejected_by_frontend += 1
                    if k == 0:
                        return
                    continue
            nfields = len(s.struct(name).fields)
            for j, v in enumerate(vals):
                if (j + len(vals)) % 3 == 0:
                    CC.poison(fcp, s, name, v, j + k)
                    rec.cls("after_failed_call")
                ref, classes, _ = CC.classify(s, name, v)
                rec.eval()
                rec.cls(*classes)
                if k:
                    rec.cls("after_same_named_variant")
                cj = CC.case_json(s, name, v, canonical=ref.hex())
                cl = set(classes)
                if nfields >= 2 and len(ref) >= 2 and cl & {"sub_byte", "length_prefixed", "optional_some",
                                                             "ids_out_of_order", "misaligned_opt"}:
                    rec.nt([cj["schema_text"], name, cj["value"]])
                    rec.sample({"schema": text, "struct": name, "value": cj["value"], "canonical": ref.hex(),
                                "classes": classes, "schemas_loaded_before_in_this_history": k})
                msg = check_value(fcp, s, name, v, ref, ctx.known, rec)
                if msg:
                    cj["history_pickle"] = pickle_b64(steps[: k + 1])
                    if k:
                        msg = f"after {k} same-named schema(s) were used in this process: " + msg
                    raise Violation(msg, cj)

    hyp_run(ctx, CC.codec_history(ctx.tier, 8), body, ctx.n(3000, 24000))

    def body_alt(c: Any) -> None:
        steps, cycles = c
        rec.cls("alternation_history")
        body([steps[i % 2] for i in range(2 * cycles)])

    hyp_run(ctx, CC.codec_alternation(ctx.tier), body_alt, ctx.n(32, 480), tag="alternate", shrink_cap=40)


def replay(case: Dict[str, Any]) -> Optional[str]:
    if case.get("kind") == "large_count":
        from vlib.runner import Recorder, load_known

        bad = check_large_counts(load_known("C02"), Recorder())
        return bad["message"] if bad else None
    if case.get("kind") == "vector":
        from vlib.runner import load_known

        bad = check_vectors(load_known("C02"))
        return bad["message"] if bad else None
    from vlib.runner import load_known

    if case.get("history_pickle"):
        import gc

        fcp = None
        for hk, hstep in enumerate(unpickle_b64(case["history_pickle"])):
            hs, hname, hvals = hstep[:3]
            if len(hstep) > 3 and hstep[3] == "inplace":
                if fcp is None:
                    continue
                CC.renumber_in_place(fcp, hs)
            else:
                fcp = None
                gc.collect()
                fcp, _t, err = frontend.parse_schema(hs)
                if fcp is None:
                    continue
            for hj, hv in enumerate(hvals):
                if (hj + len(hvals)) % 3 == 0:
                    CC.poison(fcp, hs, hname, hv, hj + hk)
                msg = check_value(fcp, hs, hname, hv, refcodec.encode(hs, hname, hv), load_known("C02"))
                if msg:
                    return msg
        return None
    s = unpickle_b64(case["schema_pickle"])
    v = unpickle_b64(case["value_pickle"])
    fcp, text, err = frontend.parse_schema(s)
    if fcp is None:
        raise HarnessError(f"front end rejects the replay schema: {err}")
    return check_value(fcp, s, case["struct"], v, refcodec.encode(s, case["struct"], v), load_known("C02"))
