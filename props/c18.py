"""C18 — C++ CAN frame wrapper: frames carry the binding's id, bus and size."""

from __future__ import annotations

from typing import Any, Dict, List, Optional, Tuple

from hypothesis import strategies as st

from props import c03, c13
from vlib import canstrat as CS
from vlib import cbuild, cppbuild, cppstrat, frontend, printer, refcodec
from vlib import model as M
from vlib import strategies as S
from vlib.runner import Ctx, HarnessError, Violation, hyp_run, pickle_b64, unpickle_b64

LEVEL = "exploration"
RULE = (
    "Programs = generated CAN schemas with 2-6 CAN bindings named after their struct (fixed-size payload <= 64 bits: ints "
    "1..64, enums <= 255, f32/f64, nested structs, arrays), frame ids 0..2047, bus names of 1-4 characters (some bindings "
    "without bus as non-matching controls); compiled once per program with the generic harness, the reflection binary loaded "
    "for the run-time schema. Per binding 8 (quick) / 40 (thorough) values and, per program, frames with non-matching "
    "(id, bus): unused id with a used bus, used id with an unused bus, and near misses of a declared pair (bus extended by "
    "one character, truncated, upper-cased, reversed; id off by one; a digit moved between the id and the bus tag; "
    "identifiers above 2047 with the same low 11 bits). Oracle for CanStaticSchema and "
    "CanDynamicSchema: (a) Encode(name, v) == {bus NUL-padded to 4, sid = id, dlc = len(canonical bytes), data = canonical "
    "bytes + zeros}; (b) Decode(that frame) == (name, v); (c) a frame whose (id, bus) matches no binding => nullopt; (d) "
    "both schemas agree. Non-trivial = program with >= 2 bindings, or a bus shorter than 4, or a payload that is not a byte "
    "multiple; distinct by sha1(schema text, binding, value | frame)."
)
ASSUMPTIONS = [
    "only bindings that declare a bus are encoded/decoded; bindings without a bus only serve as non-matching controls",
    "message names are longer than 4 characters in some programs (exercises the bus buffer handling)",
]
FLOORS = {"short_bus": 0.2, "non_byte_multiple": 0.2, "unknown_frame": 0.1, "ge2_bindings": 0.35, "compiled": (0.9, "program")}

preflight = c03.preflight


@st.composite
def program(draw, n_values: int):
    cfg = CS.CanCfg(max_enums=2, max_msgs=6, enums_max_bits=8, big_endian=False, mux=False, buses=False, devices=False,
                    units=False, alias=False)
    s = draw(CS.can_schema(cfg))
    for e in s.enums:
        e.items = [(f"{e.name}x{k}", v) for k, (_n, v) in enumerate(e.items)]
    buses = draw(st.lists(st.from_regex(r"[a-z][a-z0-9]{0,3}", fullmatch=True)
                          | st.from_regex(r"[A-Za-z][A-Za-z0-9_]{0,3}", fullmatch=True), min_size=1, max_size=3, unique=True))
    if draw(st.integers(0, 2)) == 0:
        # bus names that differ only in letter case are different buses
        b0 = buses[0]
        for v in (b0.upper(), b0.capitalize(), b0.lower(), b0.swapcase()):
            if v not in buses and len(buses) < 4:
                buses.append(v)
    same_id = draw(st.integers(0, 3)) == 0
    for n, im in enumerate(s.impls):
        im.fields = [(k, v) for k, v in im.fields if k == "id"]
        if draw(st.integers(0, 5)) != 0:
            im.fields.append(("bus", draw(st.sampled_from(buses))))
        im.signals = []
        im.order = None
    if same_id and len(buses) >= 2:
        # one frame id used on two different buses: (id, bus) is the key, not the id alone
        bound = [im for im in s.impls if im.get("bus") is not None]
        for a in bound:
            for b in bound:
                if a is not b and M.plain_value(a.get("bus")) != M.plain_value(b.get("bus")):
                    b.fields = [(k, (a.get("id") if k == "id" else v)) for k, v in b.fields]
                    break
            else:
                continue
            break
    vals = {im.type: draw(st.lists(S.struct_value(s, im.type, cppstrat.VCFG), min_size=2, max_size=n_values))
            for im in s.impls}
    used = {(M.plain_value(im.get("id")), M.plain_value(im.get("bus"))) for im in s.impls}
    strangers = []
    ids = sorted({i for i, _b in used})
    declared = sorted((i, b) for i, b in used if b is not None)
    for _ in range(draw(st.integers(2, 8))):
        fid = draw(st.sampled_from(ids) | st.integers(0, 2047))
        bus = draw(st.sampled_from(buses + ["zz", "q", "dflt", "unkn", "None"]))
        if declared and draw(st.booleans()):
            # near misses of a declared (id, bus): the bus extended, truncated, case-changed, or the id off by one
            bid, bbus = draw(st.sampled_from(declared))
            k = draw(st.integers(0, 8))
            sid = str(bid)
            if k >= 7:
                # the frame's identifier field is 16 bits wide: ids above 2047 with the same low 11 bits, on the
                # binding's bus or on a bus whose last character is shifted by the carried-out bits
                d = draw(st.integers(1, 3))
                fid = bid + 2048 * d
                bus = bbus if k == 7 else bbus[:-1] + chr(max(48, ord(bbus[-1]) - d))
            elif k == 5 and len(sid) >= 2 and len(bbus) < 4 and sid[1] != "0":
                # same concatenation "bus|id": one digit moved from the id to the bus tag
                fid, bus = int(sid[1:]), bbus + sid[0]
            elif k == 6 and len(bbus) > 1 and bbus[-1].isdigit() and int(bbus[-1] + sid) <= 2047:
                fid, bus = int(bbus[-1] + sid), bbus[:-1]
            elif k == 0 and len(bbus) < 4:
                fid, bus = bid, bbus + draw(st.sampled_from(["2", "x", "0"]))
            elif k == 1 and len(bbus) > 1:
                fid, bus = bid, bbus[:-1]
            elif k == 2:
                fid, bus = bid, bbus.upper()
            elif k == 3:
                fid, bus = (bid + 1) % 2048, bbus
            else:
                fid, bus = bid, bbus[::-1] if bbus[::-1] != bbus else bbus + "q"[: 4 - len(bbus)]
        nobus_ids = {i for i, b in used if b is None}
        # a binding without a bus has no defined tag (the static schema uses "unkn"): not a stranger
        if (fid, bus) not in used and fid not in nobus_ids:
            strangers.append((fid, bus, draw(st.binary(min_size=8, max_size=8))))
    return s, vals, strangers


def bus_arr(bus: str) -> List[int]:
    b = bus.encode()[:4]
    return list(b + b"\0" * (4 - len(b)))


def check_program(s: M.Schema, vals: Any, strangers: Any, rec: Any = None, text: str = "") -> Optional[str]:
    fcp, _t, err = frontend.parse_schema(s)
    if fcp is None:
        return "__frontend__"
    with cbuild.BuildDir("verif-c18-") as bd:
        files, gerr = cppbuild.generate_cpp(fcp, bd.path("gen"))
        if files is None:
            return f"fcp_cpp generation failed: {gerr}"
        exe, log = cppbuild.build(bd, files)
        if exe is None:
            errs = [l.split("gen/")[-1] for l in log.split("\n") if "error" in l][:3]
            return f"generated C++ does not compile: {errs}"
        if rec is not None:
            rec.cls("compiled")
        with open(bd.path("schema.bin"), "wb") as f:
            f.write(cppbuild.reflection_bin(fcp))
        ses = cppbuild.Session(exe, bd.path("schema.bin"))
        reqs: List[Dict[str, Any]] = [{"op": "load"}]
        plan: List[Tuple[str, Any]] = []
        bound = [im for im in s.impls if im.get("bus") is not None]
        for im in bound:
            bus = M.plain_value(im.get("bus"))
            fid = M.plain_value(im.get("id"))
            for v in vals[im.type]:
                ref = refcodec.encode(s, im.type, v)
                frame = {"bus": bus_arr(bus), "sid": fid, "dlc": len(ref), "data": list(ref) + [0] * (8 - len(ref))}
                named = c13.name_enums(s, M.StructRef(im.type), v)
                reqs += [{"op": "scan_enc", "name": im.eff_name, "value": v},
                         {"op": "dcan_enc", "name": im.eff_name, "value": named},
                         {"op": "scan_dec", "frame": frame}, {"op": "dcan_dec", "frame": frame}]
                plan.append(("msg", (im, v, ref, frame)))
        for fid, bus, data in strangers:
            frame = {"bus": bus_arr(bus), "sid": fid, "dlc": 8, "data": list(data)}
            reqs += [{"op": "scan_dec", "frame": frame}, {"op": "dcan_dec", "frame": frame}]
            plan.append(("stranger", frame))
        ans = ses.run(reqs)
        if ans[0].get("load_error"):
            return f"LoadBinarySchema failed: {ans[0]['load_error']}"
        pos = 1
        for kind, item in plan:
            if kind == "msg":
                im, v, ref, frame = item
                a = ans[pos:pos + 4]
                pos += 4
                bus = M.plain_value(im.get("bus"))
                cl = []
                if len(bound) >= 2:
                    cl.append("ge2_bindings")
                if len(bus) < 4:
                    cl.append("short_bus")
                others = [M.plain_value(o.get("bus")) for o in bound if o is not im]
                if any(o != bus and o.lower() == bus.lower() for o in others):
                    cl.append("bus_case_twin")
                if any(M.plain_value(o.get("id")) == M.plain_value(im.get("id")) for o in bound if o is not im):
                    cl.append("id_on_two_buses")
                from vlib import reflayout

                if reflayout.wire_width(s, M.StructRef(im.type)) % 8:
                    cl.append("non_byte_multiple")
                if rec is not None:
                    rec.eval()
                    rec.cls(*cl)
                    if cl:
                        rec.nt([text, im.eff_name, refcodec.canon(v)])
                        rec.sample({"binding": im.eff_name, "id": frame["sid"], "bus": bus, "value": refcodec.canon(v),
                                    "frame": frame})
                for label, enc in (("CanStaticSchema", a[0]), ("CanDynamicSchema", a[1])):
                    if "frame" not in enc:
                        return f"(a) {label}::Encode({im.eff_name}, {v!r}) failed: {enc}"
                    if enc["frame"] != frame:
                        return f"(a) {label}::Encode({im.eff_name}, {v!r}) = {enc['frame']} != expected {frame}"
                for label, dec in (("CanStaticSchema", a[2]), ("CanDynamicSchema", a[3])):
                    if "value" not in dec:
                        return f"(b) {label}::Decode({frame}) failed: {dec} (binding {im.eff_name})"
                    val = dec["value"]
                    if label == "CanDynamicSchema":
                        val = c13.number_enums(s, M.StructRef(im.type), val)
                    if dec.get("name") != im.eff_name or not c03.json_eq(val, v):
                        return f"(b) {label}::Decode({frame}) = ({dec.get('name')}, {dec['value']!r}) != ({im.eff_name}, {v!r})"
            else:
                frame = item
                a = ans[pos:pos + 2]
                pos += 2
                if rec is not None:
                    rec.eval()
                    rec.cls("unknown_frame")
                    rec.nt([text, frame])
                for label, dec in (("CanStaticSchema", a[0]), ("CanDynamicSchema", a[1])):
                    if not dec.get("none"):
                        return f"(c) {label}::Decode of a frame matching no binding {frame} answered {dec}"
    return None


def run_shard(ctx: Ctx) -> None:
    rec = ctx.rec

    def body(c: Any) -> None:
        s, vals, strangers = c
        rec.frontend_attempts += 1
        text = printer.to_text(s)
        msg = check_program(s, vals, strangers, rec, text)
        if msg == "__frontend__":
            rec.rejected_by_frontend += 1
            return
        rec.cls("program")
        if msg:
            raise Violation(msg, {"schema_text": text, "pickle": pickle_b64((s, vals, strangers))})

    hyp_run(ctx, program(ctx.pick(8, 40)), body, ctx.n(48, 320), shrink_cap=8)


def replay(c: Dict[str, Any]) -> Optional[str]:
    s, vals, strangers = unpickle_b64(c["pickle"])
    msg = check_program(s, vals, strangers)
    if msg == "__frontend__":
        raise HarnessError("front end rejects the replay schema")
    return msg
