"""C09 — verifier verdict equals the well-formedness specification (both ways)."""

from __future__ import annotations

import copy
import itertools
import zlib
from typing import Any, Dict, Iterable, List, Optional, Tuple

from hypothesis import strategies as st

from vlib import frontend, printer
from vlib import model as M
from vlib import specverifier as SV
from vlib import strategies as S
from vlib.runner import Ctx, HarnessError, Violation, hyp_run, pickle_b64, unpickle_b64

LEVEL = "exploration"
RULE = (
    "G1: exhaustive small scope built directly with fcp.specs constructors and factorised along the rules' couplings — "
    "(A) all sequences of <= 2 structs (names {A,B}, 0-2 fields from {x,y}) x <= 2 enums (names {A,E}, 1-2 enumerators "
    "from {P,Q}x{0,1}), (B) all sequences of <= 3 bindings (name {A,B}, protocol {default,can,uart}, type {A,B,Z}, id "
    "{none,0,1}) x every set of declared structs from {A (8 bits), B (72 bits)}, (C) <= 1 service x <= 2 devices listing "
    "subsets of {Svc, Ghost}; every struct gets its default binding; thorough enumerates each factor completely, quick "
    "a 1/50 sample of whole permutation groups. G2: Hypothesis full schemas through the real front end with 0-2 injected "
    "rule violations at random positions. G3: generated module trees in which one module file is imported twice or through "
    "a diamond (all its declarations appear twice, with identical source positions). Each tree is verified under 3 configurations (general / +fcp_dbc / +fcp_can_c "
    "checks). Oracle: verify().is_ok() == reference predicate (three-valued for the plug-in clauses where the statement "
    "is silent: non-CAN bindings, id-less bindings), an escaping exception counts as 'did not succeed'; the verdict is "
    "equal across all permutations of a declaration multiset. Non-trivial = exactly one violated rule, or none while near "
    "a violation (same name in different scopes, same id under different protocols, two structs); distinct by sha1(tree, "
    "config)."
)
ASSUMPTIONS = [
    "G1 trees are built with the library's own node constructors (what the parser itself produces)",
    "plug-in clauses are three-valued: only CAN bindings with explicit ids / widths are pinned by the statement",
]
FLOORS = {"one_violation": 0.05, "near_miss_pass": 0.02, "g2": 0.001, "g3_twice": 0.0005, "g3_diamond": 0.0005, "config_dbc": 0.15, "config_can_c": 0.15}
CONFIGS = ["general", "dbc", "can_c"]


def EXHAUSTIVE(tier: str) -> bool:
    return tier == "thorough"


# ------------------------------------------------------------------ real-code access
_VERIFIERS: Dict[str, Any] = {}


def verifier_for(config: str) -> Any:
    if config not in _VERIFIERS:
        from fcp.verifier import make_general_verifier

        v = make_general_verifier()
        if config == "dbc":
            import fcp_dbc

            fcp_dbc.Generator().register_checks(v)
        elif config == "can_c":
            import fcp_can_c

            fcp_can_c.Generator().register_checks(v)
        _VERIFIERS[config] = v
    return _VERIFIERS[config]


def real_verdict(fcp: Any, config: str) -> Tuple[bool, str]:
    try:
        r = verifier_for(config).verify(fcp)
    except Exception as e:
        return False, f"exception {type(e).__name__}: {str(e)[:120]}"
    return bool(r.is_ok()), ("ok" if r.is_ok() else f"Err({r.err()!r})"[:160])


def build_real(t: Dict[str, Any]) -> Any:
    """neutral tree (+ '_fieldspec') -> FcpV2 built with the library's constructors."""
    from fcp.specs.device import Device
    from fcp.specs.enum import Enum, Enumeration
    from fcp.specs.impl import Impl
    from fcp.specs.method import Method
    from fcp.specs.service import Service
    from fcp.specs.struct import Struct
    from fcp.specs.struct_field import StructField
    from fcp.specs.type import UnsignedType
    from fcp.specs.v2 import FcpV2

    structs = []
    for name, fields, width in t["structs"]:
        if width == 72:
            fl = [StructField("x", 0, UnsignedType("u64")), StructField("y", 1, UnsignedType("u8"))]
        else:
            fl = [StructField(fn, i, UnsignedType("u8")) for i, fn in enumerate(fields)]
        structs.append(Struct(name=name, fields=fl, meta=None))
    enums = [Enum(n, [Enumeration(en, ev, None) for en, ev in items], None) for n, items in t["enums"]]
    impls = [Impl(n, p, ty, ({} if i is None else {"id": i}), [], None) for n, p, ty, i in t["impls"]]
    services = [Service(n, k, [Method("m", 0, "A", "A", None)], None) for k, n in enumerate(t["services"])]
    devices = [Device(n, ({} if sv is None else {"services": list(sv)}), None) for n, sv in t["devices"]]
    return FcpV2(structs=structs, enums=enums, impls=impls, services=services, devices=devices)


# ----------------------------------------------------------------------- G1 factors
def _seqs(options: List[Any], max_len: int) -> Iterable[Tuple[Any, ...]]:
    for n in range(max_len + 1):
        yield from itertools.product(options, repeat=n)


FIELD_LISTS = [tuple(x) for n in range(3) for x in itertools.product("xy", repeat=n)]
STRUCT_OPTS = [(n, f) for n in "AB" for f in FIELD_LISTS]
ENUMERATORS = [(n, v) for n in "PQ" for v in (0, 1)]
ENUM_LISTS = [tuple(x) for n in (1, 2) for x in itertools.product(ENUMERATORS, repeat=n)]
ENUM_OPTS = [(n, items) for n in "AE" for items in ENUM_LISTS]
BINDING_OPTS = [(n, p, t, i) for n in "AB" for p in ("default", "can", "uart") for t in "ABZ" for i in (None, 0, 1)]
STRUCT_SETS = [(), ("A",), ("B",), ("A", "B"), ("B", "A")]


def factor_A() -> Iterable[Tuple[Any, Dict[str, Any]]]:
    for ss in _seqs(STRUCT_OPTS, 2):
        for es in _seqs(ENUM_OPTS, 2):
            key = ("A", tuple(sorted(ss)), tuple(sorted(es)))
            yield key, (ss, es)


def tree_A(ss: Any, es: Any) -> Dict[str, Any]:
    return {
        "structs": [(n, list(f), 8 * len(f)) for n, f in ss],
        "enums": [(n, list(items)) for n, items in es],
        "impls": [(n, "default", n, None) for n, _f in ss],
        "services": [],
        "devices": [],
    }


def factor_B() -> Iterable[Tuple[Any, Any]]:
    for sset in STRUCT_SETS:
        for bs in _seqs(BINDING_OPTS, 3):
            key = ("B", tuple(sorted(sset)), tuple(sorted(bs, key=repr)))
            yield key, (sset, bs)


def tree_B(sset: Any, bs: Any) -> Dict[str, Any]:
    structs = [("A", ["x"], 8) if n == "A" else ("B", ["x", "y"], 72) for n in sset]
    return {
        "structs": structs,
        "enums": [],
        "impls": [(n, "default", n, None) for n in sset] + [tuple(b) for b in bs],
        "services": [],
        "devices": [],
    }


DEV_OPTS = [("d" + str(i), sv) for i in (1, 2) for sv in (None, (), ("Svc",), ("Ghost",), ("Svc", "Ghost"), ("Ghost", "Svc"))]


def factor_C() -> Iterable[Tuple[Any, Any]]:
    for svcs in ((), ("Svc",), ("Other",), ("Svc", "Other")):
        for ds in _seqs(DEV_OPTS, 2):
            key = ("C", svcs, tuple(sorted(ds, key=repr)))
            yield key, (svcs, ds)


def tree_C(svcs: Any, ds: Any) -> Dict[str, Any]:
    return {
        "structs": [("A", ["x"], 8)],
        "enums": [],
        "impls": [("A", "default", "A", None)],
        "services": list(svcs),
        "devices": [(n, None if sv is None else list(sv)) for n, sv in ds],
    }


def compare(t: Dict[str, Any], fcp: Any, config: str) -> Tuple[Optional[str], str, bool, Any]:
    want, reasons = SV.verdict(t, config)
    ok, how = real_verdict(fcp, config)
    msg = None
    if want == "pass" and not ok:
        msg = f"config={config}: specification says well-formed but verify did not succeed ({how})"
    elif want == "fail" and ok:
        msg = f"config={config}: specification says ill-formed ({sorted(reasons)}) but verify succeeded"
    return msg, want, ok, reasons


def classify_tree(t: Dict[str, Any], want: str, reasons: Any) -> List[str]:
    cl = []
    if want == "fail" and len(reasons) == 1:
        cl.append("one_violation")
    if want == "pass":
        names_s = [s[0] for s in t["structs"]]
        near = len(names_s) >= 2
        ids = [i[3] for i in t["impls"] if i[3] is not None]
        near = near or len(set(ids)) != len(ids)
        fn = [tuple(s[1]) for s in t["structs"]]
        near = near or (len(fn) >= 2 and set(fn[0]) & set(fn[1]))
        en = [n for e in t["enums"] for n, _ in e[1]]
        near = near or len(set(en)) != len(en)
        nm = [i[0] for i in t["impls"]]
        near = near or len(set(nm)) != len(nm)
        if near:
            cl.append("near_miss_pass")
    if want == "free":
        cl.append("unconstrained")
    return cl


def run_g1(ctx: Ctx) -> None:
    rec = ctx.rec
    sample_mod = 1 if ctx.tier == "thorough" else 50
    offset = ctx.base_seed % sample_mod
    groups: Dict[Any, Dict[str, bool]] = {}
    for factor, builder in ((factor_A, tree_A), (factor_B, tree_B), (factor_C, tree_C)):
        n_factor = 0
        for key, args in factor():
            h = zlib.crc32(repr(key).encode())
            if h % ctx.nshards != ctx.shard:
                continue
            if (h // ctx.nshards) % sample_mod != offset and key[0] != "C":
                continue
            t = builder(*args)
            try:
                fcp = build_real(t)
            except Exception as e:
                raise HarnessError(f"cannot build G1 tree {t}: {type(e).__name__}: {e}")
            n_factor += 1
            for config in CONFIGS:
                msg, want, ok, reasons = compare(t, fcp, config)
                rec.eval()
                cl = classify_tree(t, want, reasons)
                rec.cls("g1", "config_" + config, "factor_" + key[0], "want_" + want, *cl)
                if cl and ("one_violation" in cl or "near_miss_pass" in cl):
                    rec.nt([t, config])
                    if key[0] != "A" or n_factor % 97 == 0:
                        rec.sample({"tree": t, "config": config, "specification": want, "reasons": sorted(reasons),
                                    "verify_ok": ok})
                case = {"kind": "g1", "tree": t, "config": config}
                if msg:
                    raise Violation(msg + f" on tree {t}", case)
                g = groups.setdefault(key, {})
                if config in g and g[config] != ok:
                    raise Violation(f"config={config}: verdict depends on declaration order (permutation group {key})",
                                    case)
                g[config] = ok
        rec.extra[f"g1_trees_factor_{factor.__name__[-1]}"] = rec.extra.get(f"g1_trees_factor_{factor.__name__[-1]}", 0) + n_factor
        groups.clear()


# ------------------------------------------------------------------------------- G2
INJECT = ["dup_type_struct", "dup_type_enum", "dup_field", "dup_binding", "dup_enumerator_name", "dup_enumerator_value",
          "unknown_service", "can_unknown_struct", "dup_can_id", "wide_can_message", "second_struct", "same_id_other_protocol",
          "dup_binding_via_alias", "same_name_other_protocol", "wide_can_message_name_collision",
          # well-formed near misses of the uniqueness rules: keys that only collide after joining, swapping or
          # case-folding their components, or modulo a machine word (all MUST pass)
          "binding_keys_join_underscore", "binding_keys_join_plain", "binding_keys_swapped", "binding_names_case",
          "type_names_case", "field_names_case", "enumerator_names_case", "enumerator_values_congruent",
          # ill-formed look-alikes (MUST fail)
          "service_case_mismatch", "service_named_like_struct", "wide_can_message_enum",
          "can_binding_to_enum", "can_binding_case_mismatch", "wide_can_message_dup_field_ids"]


@st.composite
def g2_case(draw):
    cfg = S.FullCfg(
        data=S.SchemaCfg(types=S.TypeCfg(depth=1, strings=False, dyn=False, opt=False, max_arr=2, max_width=16),
                         max_structs=3, max_fields=3, enum_max_bits=8),
        max_impls=3, max_services=1, max_devices=1, free_positions=False, protocols=("can", "can", "uart"),
        ext_keys=S.lower_ident.filter(lambda k: k not in ("id", "services")),
    )
    s = copy.deepcopy(draw(S.full_schema(cfg)))
    # give every explicit binding a distinct id so that the base case is clean
    for n, im in enumerate(s.impls):
        im.fields = [(k, v) for k, v in im.fields if k != "id"] + [("id", 100 + n)]
        if im.order is not None:
            im.order = None
    inj = draw(st.lists(st.sampled_from(INJECT), min_size=0, max_size=2, unique=True))
    k = draw(st.integers(0, 10**6))
    structs = s.structs
    for tw in inj:
        if tw == "dup_type_struct":
            names = [d.name for d in s.decls if isinstance(d, (M.Struct, M.Enum))]
            s.decls.append(M.Struct(names[k % len(names)], [M.Field("q", 0, M.U(8))]))
        elif tw == "dup_type_enum":
            names = [d.name for d in s.decls if isinstance(d, (M.Struct, M.Enum))]
            s.decls.append(M.Enum(names[k % len(names)], [("Q", 0)]))
        elif tw == "dup_field":
            st_ = structs[k % len(structs)]
            st_.fields.append(M.Field(st_.fields[0].name, max(f.fid for f in st_.fields) + 1, M.U(8)))
        elif tw == "dup_binding":
            st_ = structs[k % len(structs)]
            s.decls.append(M.Impl("uart", st_.name, None, [("id", 900)]))
            s.decls.append(M.Impl("uart", st_.name, None, [("id", 901)]))
        elif tw == "dup_enumerator_name" and s.enums:
            e = s.enums[k % len(s.enums)]
            e.items.append((e.items[0][0], max(v for _, v in e.items) + 1))
        elif tw == "dup_enumerator_value" and s.enums:
            e = s.enums[k % len(s.enums)]
            e.items.append(("Zq" + str(k % 7), e.items[0][1]))
        elif tw == "unknown_service":
            s.decls.append(M.Device("devq", [("services", [M.Ident("NoSuchSvc")])]))
        elif tw == "can_unknown_struct":
            s.decls.append(M.Impl("can", "NoSuchStructQ", None, [("id", 950)]))
        elif tw == "dup_can_id":
            st_ = structs[k % len(structs)]
            dup = [0, 777, 5, 2047][k % 4]
            s.decls.append(M.Impl("can", st_.name, "DupA", [("id", dup)]))
            s.decls.append(M.Impl("can", structs[(k // 3) % len(structs)].name, "DupB", [("id", dup)]))
        elif tw == "wide_can_message":
            s.decls.append(M.Struct("WideQ", [M.Field("a", 0, M.U(64)), M.Field("b", 1, M.U(1 + k % 8))]))
            s.decls.append(M.Impl("can", "WideQ", None, [("id", 960)]))
        elif tw == "dup_binding_via_alias" and len(structs) >= 2:
            a, b = structs[k % len(structs)], structs[(k + 1) % len(structs)]
            # "impl spi for A as B" collides with "impl spi for B" on (name, protocol)
            s.decls.append(M.Impl("spi", b.name, None, [("id", 930)]))
            s.decls.append(M.Impl("spi", a.name, b.name, [("id", 931)]))
        elif tw == "same_name_other_protocol":
            st_ = structs[k % len(structs)]
            s.decls.append(M.Impl("spi", st_.name, "SameNameQ", [("id", 940)]))
            s.decls.append(M.Impl("i2c", st_.name, "SameNameQ", [("id", 941)]))
        elif tw == "wide_can_message_name_collision":
            # 72 bits, but only 40 when sizes are summed per (colliding) leaf name
            s.decls.append(M.Struct("WideCq", [M.Field("spd", 0, M.Arr(M.U(32), 2)), M.Field("spd_1", 1, M.U(1 + k % 8))]))
            s.decls.append(M.Impl("can", "WideCq", None, [("id", 961)]))
        elif tw == "binding_keys_join_underscore" and len(structs) >= 1:
            a, b = structs[k % len(structs)], structs[(k + 1) % len(structs)]
            # ("fd_Nq", spi) and ("Nq", spi_fd): equal only as "spi_fd_Nq" / "fd_Nq_spi"-style joined strings
            s.decls.append(M.Impl("spi", a.name, "fd_Nq", [("id", 970)]))
            s.decls.append(M.Impl("spi_fd", b.name, "Nq", [("id", 971)]))
            s.decls.append(M.Impl("i2c", a.name, "Nq_fast", [("id", 972)]))
            s.decls.append(M.Impl("fast_i2c", b.name, "Nq", [("id", 973)]))
        elif tw == "binding_keys_join_plain" and len(structs) >= 1:
            a, b = structs[k % len(structs)], structs[(k + 1) % len(structs)]
            s.decls.append(M.Impl("spi", a.name, "xNq", [("id", 974)]))
            s.decls.append(M.Impl("spix", b.name, "Nq", [("id", 975)]))
        elif tw == "binding_keys_swapped" and len(structs) >= 1:
            a = structs[k % len(structs)]
            s.decls.append(M.Impl("spi", a.name, "lin2", [("id", 976)]))
            s.decls.append(M.Impl("lin2", a.name, "spi", [("id", 977)]))
        elif tw == "binding_names_case" and len(structs) >= 1:
            a = structs[k % len(structs)]
            s.decls.append(M.Impl("spi", a.name, "CaseNq", [("id", 978)]))
            s.decls.append(M.Impl("spi", a.name, "caseNq", [("id", 979)]))
            s.decls.append(M.Impl("spi", a.name, "CASENQ", [("id", 980)]))
        elif tw == "type_names_case":
            s.decls.append(M.Struct("CaseTq", [M.Field("a", 0, M.U(8))]))
            s.decls.append(M.Enum("caseTq", [("Q", 0)]))
            s.decls.append(M.Struct("CASETQ", [M.Field("a", 0, M.U(8))]))
        elif tw == "field_names_case":
            s.decls.append(M.Struct("CaseFq", [M.Field("val", 0, M.U(8)), M.Field("Val", 1, M.U(8)), M.Field("VAL", 2, M.U(8))]))
        elif tw == "enumerator_names_case":
            s.decls.append(M.Enum("CaseEq", [("On", 0), ("ON", 1), ("on", 2)]))
        elif tw == "enumerator_values_congruent":
            s.decls.append(M.Enum("CongEq", [("A0", k % 3), ("A1", (k % 3) + 2**32), ("A2", (k % 3) + 2**16), ("A3", (k % 3) + 256)]))
        elif tw == "service_case_mismatch" and s.services:
            sv = s.services[k % len(s.services)]
            other = sv.name.swapcase()
            if other != sv.name and other not in {x.name for x in s.services}:
                s.decls.append(M.Device("devcq", [("services", [M.Ident(other)])]))
        elif tw == "service_named_like_struct":
            st_ = structs[k % len(structs)]
            if st_.name not in {x.name for x in s.services}:
                s.decls.append(M.Device("devsq", [("services", [M.Ident(st_.name)])]))
        elif tw == "wide_can_message_enum":
            w = 54 + k % 10
            top = [1 << (w - 1), (1 << w) - 1, (1 << (w - 1)) + 1][k % 3]
            items = [("Only", top)] if k % 2 else [("Lo", 0), ("Hi", top)]
            s.decls.append(M.Enum("WideEnumQ", items))
            s.decls.append(M.Struct("WideEq", [M.Field("a", 0, M.EnumRef("WideEnumQ")), M.Field("b", 1, M.U(65 - w))]))
            s.decls.append(M.Impl("can", "WideEq", None, [("id", 962)]))
        elif tw == "can_binding_to_enum" and s.enums:
            # an enum is a declared type but not a struct: a CAN binding to it names no struct
            e = s.enums[k % len(s.enums)]
            s.decls.append(M.Impl("can", e.name, "EnumBoundQ", [("id", 963)]))
        elif tw == "can_binding_case_mismatch":
            st_ = structs[k % len(structs)]
            other = st_.name.swapcase()
            if other not in {d.name for d in s.decls if isinstance(d, (M.Struct, M.Enum))}:
                s.decls.append(M.Impl("can", other, "CaseBoundQ", [("id", 964)]))
        elif tw == "wide_can_message_dup_field_ids":
            # 72 bits; only 64 (or fewer) if fields sharing an id are counted once
            n = 9 + k % 2
            ids = list(range(n))
            ids[(k // 2) % (n - 1) + 1] = ids[(k // 2) % (n - 1)]
            s.decls.append(M.Struct("WideDq", [M.Field(f"f{i}", fid, M.U(8)) for i, fid in enumerate(ids)]))
            s.decls.append(M.Impl("can", "WideDq", None, [("id", 965)]))
        elif tw == "second_struct":
            s.decls.append(M.Struct("SecondQ", [M.Field("a", 0, M.U(8))]))
        elif tw == "same_id_other_protocol":
            st_ = structs[k % len(structs)]
            s.decls.append(M.Impl("can", st_.name, "SameA", [("id", 555)]))
            s.decls.append(M.Impl("lin", st_.name, "SameB", [("id", 555)]))
    return s, inj


def run_g2(ctx: Ctx) -> None:
    rec = ctx.rec

    def body(c: Any) -> None:
        s, inj = c
        rec.frontend_attempts += 1
        fcp, text, err = frontend.parse_schema(s)
        if fcp is None:
            rec.rejected_by_frontend += 1
            return
        t = SV.tree_of_model(s)
        for config in CONFIGS:
            msg, want, ok, reasons = compare(t, fcp, config)
            rec.eval()
            cl = classify_tree(t, want, reasons)
            rec.cls("g2", "config_" + config, "want_" + want, *cl, *["inject_" + i for i in inj])
            if "one_violation" in cl or "near_miss_pass" in cl:
                rec.nt([text, config])
                rec.sample({"schema": text, "config": config, "injected": inj, "specification": want,
                            "reasons": sorted(reasons), "verify_ok": ok})
            if msg:
                raise Violation(msg, {"kind": "g2", "schema_text": text, "schema_pickle": pickle_b64(s), "config": config})

    hyp_run(ctx, g2_case(), body, ctx.n(1200, 20000), tag="g2")


@st.composite
def g3_case(draw):
    """Module trees in which one module file is reached twice (written twice, or through a diamond): every declaration
    of that module is then present twice, with identical source positions."""
    from vlib import modules as MO

    cfg = S.SchemaCfg(types=S.TypeCfg(depth=1, strings=False, dyn=False, opt=False, max_arr=2, max_width=16),
                      max_fields=3, enum_max_bits=8)
    tree = draw(MO.module_tree(2, False, cfg))
    mods = [d for d in tree.decls if isinstance(d, M.Mod)]
    kind = "none"
    if mods and draw(st.integers(0, 3)) != 0:
        m = draw(st.sampled_from(mods))
        if draw(st.booleans()):
            kind = "twice"
            tree.decls.insert(draw(st.integers(tree.decls.index(m) + 1, len(tree.decls))), M.Mod(list(m.path), m.schema))
        else:
            kind = "diamond"
            # a second module next to the first one that imports the same file again
            sib = M.Schema([M.Mod([m.path[-1]], m.schema)])
            side = M.Mod(list(m.path[:-1]) + ["dia" + m.path[-1]], sib)
            tree.decls.insert(draw(st.integers(tree.decls.index(m) + 1, len(tree.decls))), side)
    return tree, kind


def run_g3(ctx: Ctx) -> None:
    from vlib import modules as MO

    rec = ctx.rec

    def body(c: Any) -> None:
        tree, kind = c
        with MO.Scratch("verif-c09-") as sc:
            rec.frontend_attempts += 1
            fcp, root, err = frontend.parse_schema_files(tree, sc.dir, "main.fcp")
            if fcp is None:
                rec.rejected_by_frontend += 1
                return
            t = SV.tree_of_model(tree)
            files = MO.files_of(tree)
            for config in CONFIGS:
                msg, want, ok, reasons = compare(t, fcp, config)
                rec.eval()
                cl = classify_tree(t, want, reasons)
                rec.cls("g3", "g3_" + kind, "config_" + config, "want_" + want, *cl)
                if kind != "none":
                    rec.nt([files, config])
                    rec.sample({"files": files, "import": kind, "config": config, "specification": want, "verify_ok": ok})
                if msg:
                    raise Violation(f"module imported {kind}: " + msg, {"kind": "g3", "tree_pickle": pickle_b64(tree), "files": files,
                                                                      "config": config})

    hyp_run(ctx, g3_case(), body, ctx.n(600, 8000), tag="g3")


def run_shard(ctx: Ctx) -> None:
    run_g2(ctx)
    run_g3(ctx)
    try:
        run_g1(ctx)
    except Violation as v:
        ctx.rec.violations.append({"message": v.message, "case": v.case, "seed": ctx.base_seed, "shard": ctx.shard})


def replay(c: Dict[str, Any]) -> Optional[str]:
    if c["kind"] == "g1":
        t = c["tree"]
        t = {
            "structs": [(a, list(b), w) for a, b, w in t["structs"]],
            "enums": [(a, [tuple(x) for x in b]) for a, b in t["enums"]],
            "impls": [tuple(x) for x in t["impls"]],
            "services": list(t["services"]),
            "devices": [(a, None if b is None else list(b)) for a, b in t["devices"]],
        }
        msg, *_ = compare(t, build_real(t), c["config"])
        return msg
    if c["kind"] == "g3":
        from vlib import modules as MO

        tree = unpickle_b64(c["tree_pickle"])
        with MO.Scratch("verif-c09-") as sc:
            fcp, root, err = frontend.parse_schema_files(tree, sc.dir, "main.fcp")
            if fcp is None:
                raise HarnessError(f"front end rejects the replay tree: {err}")
            msg, *_ = compare(SV.tree_of_model(tree), fcp, c["config"])
        return msg
    s = unpickle_b64(c["schema_pickle"])
    fcp, text, err = frontend.parse_schema(s)
    if fcp is None:
        raise HarnessError(f"front end rejects the replay schema: {err}")
    msg, *_ = compare(SV.tree_of_model(s), fcp, c["config"])
    return msg
