"""C14 — CAN messages that do not fit a frame are rejected, never truncated."""

from __future__ import annotations

import contextlib
import io
import os
import re
from typing import Any, Dict, List, Optional, Tuple

from hypothesis import strategies as st

from vlib import canstrat as CS
from vlib import dbcreader, frontend, printer, reflayout
from vlib import model as M
from vlib import modules as MO
from vlib import strategies as S
from vlib.runner import Ctx, HarnessError, Violation, hyp_run, pickle_b64, unpickle_b64

LEVEL = "exploration"
RULE = (
    "Hypothesis-generated CAN bindings whose reference packed size is 57..200 bits (biased to 63..72), the bulk placed in "
    "the first/middle/last field, in a nested struct, in an array or in an enum; bindings whose struct has a str / dynamic "
    "array / optional at top level, nested, or inside an array; plus fitting controls; optionally accompanied by a second, "
    "fitting message. Oracle (a) size > 64 or variable-size => fcp_dbc.Generator().generate and "
    "GeneratorManager.generate('dbc'|'can_c') end in Err or an exception, no returned/written file mentions the message, "
    "and the scratch output directory is unchanged; (b) whenever generation succeeds every DBC signal lies inside 8*length "
    "and no two non-multiplexed signals overlap (own reader), and every C signal macro (start,len) lies inside 8*dlc <= 64 "
    "without overlap (regex over the generated *_can.c). Non-trivial = size 65..72 or any non-fitting placement class; "
    "distinct by sha1(schema text)."
)
ASSUMPTIONS = [
    "a fitting message that a back end refuses is not a C14 violation (C06/C09 own acceptance)",
    "either an Err result or an exception counts as 'fails with an error'",
]
FLOORS = {"just_over": 0.05, "oversize": 0.2, "variable": 0.10, "fits": 0.08, "place_nested": 0.015, "place_array": 0.03,
          "place_enum": 0.03, "var_nested": 0.02, "var_in_array": 0.02, "success_checked": 0.07}

PLACES = ["first", "middle", "last", "nested", "array", "enum", "spread"]
VAR_PLACES = ["top", "nested", "in_array"]


def enum_of_width(draw, name: str, w: int) -> M.Enum:
    """An enum whose wire width is exactly w bits, with every shape of maximum: all ones, the exact power of two
    2^(w-1) (the smallest maximum that needs w bits: width formulas based on log2/floats or on the number of
    enumerators get it wrong), something in between; with a zero enumerator or as the only enumerator ({X = 0} is
    one bit wide)."""
    lo = (1 << (w - 1)) if w > 1 else 0
    hi = (1 << w) - 1
    top = draw(st.sampled_from([hi, lo, lo, lo + 1 if lo + 1 <= hi else hi]) | st.integers(lo, hi))
    if draw(st.integers(0, 2)) == 0 or top == 0:
        return M.Enum(name, [("Only", top)])
    items = [("Lo", 0), ("Hi", top)]
    if draw(st.booleans()):
        items.reverse()
    return M.Enum(name, items)


@st.composite
def case(draw):
    names = draw(S.unique_names(CS.can_type, 5, 5))
    msg, helper, enum_name, other, small_enum = names
    kind = draw(st.sampled_from(["over", "over", "over", "variable", "variable", "fit", "fit", "collide"]))
    decls: List[M.Decl] = []
    fnames = draw(S.unique_names(CS.can_field, 5, 5))
    if draw(st.integers(0, 3)) == 0:
        # names that look like padding: a generator must not treat them differently
        fl = draw(st.lists(st.sampled_from(["reserved", "rsvd0", "rsvd1", "padding", "unused", "spare", "dummy"]), min_size=1, max_size=3, unique=True))
        pos = draw(st.permutations(list(range(5))))
        for nm, i in zip(fl, pos):
            if nm not in fnames:
                fnames[i] = nm
    info: Dict[str, Any] = {"kind": kind}
    if kind == "collide":
        # an over-long message in which a sibling field is spelled like an unrolled array element (x_1 next to
        # x: [T, n]): both leaves carry the same name, and a size computed per *name* under-counts
        ew, cnt = draw(st.sampled_from([(32, 2), (16, 4), (8, 8), (21, 3)]))
        extra = draw(st.integers(1, 8))
        k = draw(st.integers(0, cnt - 1))
        arr = fnames[0]
        fields = [M.Field(arr, 0, M.Arr(M.U(ew), cnt)), M.Field(f"{arr}_{k}", 1, M.U(extra))]
        if draw(st.booleans()):
            fields.reverse()
        decls.append(M.Struct(msg, fields))
        info["place"] = "collide"
        info["total"] = ew * cnt + extra
    elif kind in ("over", "fit"):
        if kind == "over":
            total = draw(st.sampled_from([65, 66, 72, 71, 80, 128, 129, 200]) | st.integers(65, 72) | st.integers(65, 200))
        else:
            total = draw(st.sampled_from([57, 63, 64, 64, 60]) | st.integers(57, 64) | st.integers(1, 64))
        place = draw(st.sampled_from(PLACES))
        info["place"] = place
        info["total"] = total
        # small filler fields + one bulk
        n_fill = draw(st.integers(0, 3))
        fills = [draw(st.integers(1, 8)) for _ in range(n_fill)]
        while sum(fills) >= total and fills:
            fills.pop()
        bulk = total - sum(fills)
        fields: List[M.Field] = []

        def scalar(w: int) -> M.Type:
            if w == 32 and draw(st.booleans()):
                return M.F32()
            if w > 64:
                return None
            return M.U(w) if draw(st.booleans()) else M.I(w)

        def bulk_type(w: int) -> M.Type:
            nonlocal place
            if place == "enum" and w <= 63:
                decls.append(enum_of_width(draw, enum_name, w))
                return M.EnumRef(enum_name)
            if place == "nested":
                parts = []
                rest = w
                i = 0
                while rest > 0:
                    p = min(rest, draw(st.integers(1, 64)))
                    parts.append(M.Field(f"n{i}", i, M.U(p)))
                    rest -= p
                    i += 1
                decls.append(M.Struct(helper, parts))
                return M.StructRef(helper)
            if place == "array" or w > 64:
                # w = cnt * ew + leftover (leftover becomes an extra filler)
                for ew in sorted({draw(st.integers(1, 32)), 8, 16, 3}):
                    if w % ew == 0 and w // ew <= 64:
                        place = "array" if place not in ("nested", "enum") else place
                        return M.Arr(M.U(ew), w // ew)
                return M.Arr(M.U(1), w)
            return scalar(w) or M.Arr(M.U(1), w)

        bt = bulk_type(bulk)
        order = {"first": 0, "last": len(fills), "middle": len(fills) // 2}.get(place, draw(st.integers(0, len(fills))))
        widths: List[Any] = list(fills)
        widths.insert(order, bt)
        small_done = False
        for i, w in enumerate(widths):
            if isinstance(w, int) and not small_done and draw(st.integers(0, 3)) == 0:
                # a filler that is a small enum (incl. the one-bit enum whose only enumerator is 0)
                decls.append(enum_of_width(draw, small_enum, w))
                t = M.EnumRef(small_enum)
                small_done = True
                info["small_enum"] = True
            else:
                t = w if not isinstance(w, int) else (M.U(w) if draw(st.booleans()) else M.I(w))
            fields.append(M.Field(fnames[i], i, t))
        decls.append(M.Struct(msg, fields))
    else:
        vplace = draw(st.sampled_from(VAR_PLACES))
        vt = draw(st.sampled_from([M.Str(), M.Dyn(M.U(8)), M.Opt(M.U(8)), M.Opt(M.F32()), M.Dyn(M.Str())]))
        info["place"] = "var_" + vplace
        fields = [M.Field(fnames[0], 0, M.U(draw(st.integers(1, 16))))]
        if vplace == "top":
            fields.insert(draw(st.integers(0, 1)), M.Field(fnames[1], 1, vt))
        elif vplace == "nested":
            decls.append(M.Struct(helper, [M.Field("n0", 0, M.U(3)), M.Field("n1", 1, vt)]))
            fields.append(M.Field(fnames[1], 1, M.StructRef(helper)))
        else:
            fields.append(M.Field(fnames[1], 1, M.Arr(vt, draw(st.integers(1, 3)))))
        decls.append(M.Struct(msg, fields))
    # a copy/paste slip: two fields of the message carry the same id (accepted by the front end and the verifier)
    msg_struct = [d for d in decls if isinstance(d, M.Struct) and d.name == msg][0]
    if len(msg_struct.fields) >= 2 and draw(st.integers(0, 4)) == 0:
        i, j = draw(st.lists(st.integers(0, len(msg_struct.fields) - 1), min_size=2, max_size=2, unique=True))
        msg_struct.fields[j].fid = msg_struct.fields[i].fid
        info["duplicate_field_id"] = True
    mid = draw(st.integers(0, 2047))
    impl_fields = [("id", mid), ("device", "ecu")]
    if draw(st.booleans()):
        impl_fields.append(("bus", draw(CS.bus_name)))
    decls.append(M.Impl("can", msg, None, impl_fields))
    if draw(st.booleans()):
        decls.append(M.Struct(other, [M.Field("a", 0, M.U(8)), M.Field("b", 1, M.I(16))]))
        decls.append(M.Impl("can", other, None, [("id", (mid + 1) % 2048), ("device", "ecu")]))
        info["second_message"] = True
    info["msg"] = msg
    info["id"] = mid
    if draw(st.integers(0, 2)) == 0:
        info["manager_history"] = draw(st.lists(st.sampled_from(["nop", "cpp", "dbc", "can_c", "nop"]), min_size=1, max_size=2))
    return M.Schema(decls), info


def ref_size(s: M.Schema, name: str) -> Optional[int]:
    try:
        return reflayout.total_bits(reflayout.layout(s, name, True))
    except reflayout.NotFixedSize:
        return None


MACRO = re.compile(r"#define can_encode_signal_([a-z0-9]+)_(\w+)\(signal\) \\\s*\n\s*can_encode_signal_from_\w+\(\(signal\), (\d+), (\d+),")
ENCODE = re.compile(r"CanFrame can_encode_msg_([a-z0-9]+)\([^)]*\)\s*\{\s*CanFrame message = \{\.id = (\d+), \.dlc = (\d+)\};")


def check_c_sources(files: Dict[str, str]) -> Optional[str]:
    for path, text in files.items():
        if not path.endswith("_can.c"):
            continue
        dlc = {m.group(1): int(m.group(3)) for m in ENCODE.finditer(text)}
        sigs: Dict[str, List[Tuple[str, int, int]]] = {}
        for m in MACRO.finditer(text):
            sigs.setdefault(m.group(1), []).append((m.group(2), int(m.group(3)), int(m.group(4))))
        for msg, lst in sigs.items():
            if msg not in dlc:
                return f"(b) {path}: no encode function/dlc found for message {msg}"
            if dlc[msg] > 8:
                return f"(b) {path}: message {msg} has dlc {dlc[msg]} > 8"
            used: Dict[int, str] = {}
            for name, start, ln in lst:
                if start + ln > 8 * dlc[msg] or start + ln > 64:
                    return f"(b) {path}: signal {msg}.{name} ({start},{ln}) extends beyond dlc {dlc[msg]}"
                for b in range(start, start + ln):
                    if b in used:
                        return f"(b) {path}: signals {msg}.{name} and {used[b]} overlap at bit {b}"
                    used[b] = name
    return None


def check_dbc_text(text: str) -> Optional[str]:
    try:
        db = dbcreader.parse(text)
    except Exception as e:
        return f"(b) generated DBC unreadable: {e}"
    for m in db.messages:
        used: Dict[int, str] = {}
        for sg in m.signals:
            bits = dbcreader.occupied_bits(sg)
            if any(b < 0 or b >= 8 * m.length for b in bits) or m.length > 8:
                return f"(b) DBC signal {m.name}.{sg.name} {sg.start}|{sg.length} extends beyond the {m.length}-byte message"
            if sg.mux_ids is not None and not sg.is_multiplexer:
                continue
            for b in bits:
                if b in used:
                    return f"(b) DBC signals {m.name}.{sg.name} and {used[b]} overlap at bit {b}"
                used[b] = sg.name
    return None


def mentions(text: str, msg: str, mid: int) -> bool:
    return bool(re.search(rf"\bBO_ {mid} {msg}\b", text)) or bool(re.search(rf"\bCanMsg{msg}\b", text)) or bool(
        re.search(rf"can_encode_msg_{msg.lower()}\b", text))


def check(s: M.Schema, info: Dict[str, Any], rec: Any = None) -> Optional[str]:
    import fcp_dbc
    from fcp.codegen import GeneratorManager
    from fcp.verifier import make_general_verifier

    fcp, text, err = frontend.parse_schema(s)
    if fcp is None:
        return "__frontend__"
    size = ref_size(s, info["msg"])
    must_fail = size is None or size > 64
    info["size"] = size
    # 1. plug-in entry point
    try:
        out = fcp_dbc.Generator().generate(fcp, {"output": "out"})
        ok = True
    except Exception:
        ok = False
        out = []
    if must_fail and ok:
        for f in out:
            if mentions(str(f["contents"]), info["msg"], info["id"]):
                return f"(a) fcp_dbc generate succeeded and describes message {info['msg']} (size {size})"
        return f"(a) fcp_dbc generate succeeded although message {info['msg']} has size {size}"
    if ok:
        if rec is not None:
            rec.cls("success_checked")
        for f in out:
            m = check_dbc_text(str(f["contents"]))
            if m:
                return m
    # 2. GeneratorManager for both back ends
    for gen in ("dbc", "can_c"):
        fcp2, _t, _e = frontend.parse_schema(s)
        with MO.Scratch("verif-c14-") as sc:
            out_dir = sc.path("out")
            os.makedirs(out_dir)
            failed = False
            mgr = GeneratorManager(make_general_verifier())
            # a tool that keeps one manager (and one parsed schema) and generates several targets one after the other
            for n0, g0 in enumerate(info.get("manager_history") or []):
                pre_dir = sc.path(f"pre{n0}")
                os.makedirs(pre_dir)
                try:
                    with contextlib.redirect_stdout(io.StringIO()):
                        mgr.generate(g0, None, None, fcp2, pre_dir)
                except BaseException:
                    pass
            try:
                with contextlib.redirect_stdout(io.StringIO()):
                    r = mgr.generate(gen, None, None, fcp2, out_dir)
                failed = bool(r.is_err())
            except Exception:
                failed = True
            files: Dict[str, str] = {}
            for dp, _dn, fn in os.walk(out_dir):
                for f in fn:
                    with open(os.path.join(dp, f), errors="replace") as fh:
                        files[os.path.relpath(os.path.join(dp, f), out_dir)] = fh.read()
        if must_fail:
            if not failed:
                return f"(a) GeneratorManager.generate('{gen}') succeeded although message {info['msg']} has size {size}"
            hit = [p for p, t in files.items() if mentions(t, info["msg"], info["id"])]
            if hit:
                return f"(a) '{gen}' failed but {hit} describe message {info['msg']}"
            if files:
                return f"(a) '{gen}' failed but wrote {sorted(files)}"
        elif not failed:
            if rec is not None:
                rec.cls("success_checked_" + gen)
            for p, t in files.items():
                if gen == "dbc":
                    m = check_dbc_text(t)
                    if m:
                        return m
            if gen == "can_c":
                m = check_c_sources(files)
                if m:
                    return m
    return None


def run_shard(ctx: Ctx) -> None:
    rec = ctx.rec

    def body(c: Any) -> None:
        s, info = c
        info = dict(info)
        rec.frontend_attempts += 1
        msg = check(s, info, rec)
        if msg == "__frontend__":
            rec.rejected_by_frontend += 1
            return
        rec.eval()
        size = info.get("size")
        cl = []
        if size is None:
            cl += ["variable", info["place"]]
        elif size > 64:
            cl += ["oversize", "place_" + info["place"]]
            if size <= 72:
                cl.append("just_over")
        else:
            cl += ["fits", "place_" + info["place"]]
        if info.get("duplicate_field_id"):
            cl.append("duplicate_field_id")
        if info.get("small_enum"):
            cl.append("small_enum_filler")
        if info.get("manager_history"):
            cl.append("manager_reused_after_other_targets")
        rec.cls(*cl)
        text = printer.to_text(s)
        if size is None or size > 64:
            rec.nt(text)
            rec.sample({"schema": text, "message": info["msg"], "reference_size": size, "classes": cl})
        if msg:
            raise Violation(msg, {"schema_text": text, "schema_pickle": pickle_b64(s), "info": info})

    hyp_run(ctx, case(), body, ctx.n(4800, 30000))


def replay(c: Dict[str, Any]) -> Optional[str]:
    s = unpickle_b64(c["schema_pickle"])
    msg = check(s, dict(c["info"]))
    if msg == "__frontend__":
        raise HarnessError("front end rejects the replay schema")
    return msg
