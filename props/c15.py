"""C15 — field ids, not declaration order, fix the wire order in every back end."""

from __future__ import annotations

import copy
from typing import Any, Dict, List, Optional, Tuple

from hypothesis import strategies as st

from props import c04, c05
from vlib import canstrat as CS
from vlib import codec_common as CC
from vlib import frontend, printer, refcodec, reflayout
from vlib import model as M
from vlib import strategies as S
from vlib.runner import Ctx, HarnessError, Violation, hyp_run, pickle_b64, unpickle_b64

LEVEL = "exploration"
RULE = (
    "Metamorphic twins: a generated schema S and S' obtained by permuting the field declarations of every struct (ids, names "
    "and types fixed; a generated non-identity permutation per struct). Oracle per back end: (a) PackedEncoder layouts of "
    "every binding equal (both unroll modes); (b) generated DBC files equal byte for byte; (c) serde.encode bytes equal for "
    "the same value and equal to the reference canonical bytes, and decode of those bytes equal; (d) generated C: frames "
    "returned by can_encode_msg_* equal and equal to the reference packing; (e) generated C++: static and reflection-loaded "
    "codec bytes equal (twin programs compiled and run; see compiled engines); (f) the TypeVisitor walk used by `fcp describe` "
    "equal. Non-trivial = the permutation moves a field "
    "across a field of a different wire width or type; distinct by sha1(text of S, text of S')."
)
ASSUMPTIONS = [
    "field ids are distinct within a struct",
    "(d)/(e) run fewer twin programs than (a)-(c) because every twin needs compilations",
]
FLOORS = {"moved_across_different": 0.3, "python_codec": 0.2, "layout_dbc": 0.2}


@st.composite
def permuted(draw, s: M.Schema) -> Tuple[M.Schema, bool]:
    s2 = copy.deepcopy(s)
    moved = False
    for st_ in s2.structs:
        if len(st_.fields) >= 2:
            perm = draw(st.permutations(list(range(len(st_.fields)))))
            if list(perm) == list(range(len(st_.fields))) and draw(st.booleans()):
                perm = list(reversed(perm))
            old = st_.fields
            st_.fields = [old[i] for i in perm]
            # does the permutation move a field across one of different type?
            for a in range(len(perm)):
                for b in range(a + 1, len(perm)):
                    if perm[a] > perm[b] and M.type_text(old[perm[a]].type) != M.type_text(old[perm[b]].type):
                        moved = True
    return s2, moved


@st.composite
def case_codec(draw, tier: str):
    s, name, vals = draw(CC.codec_case(tier, 4, dup_ids=False))  # C15 presupposes distinct field ids
    s2, moved = draw(permuted(s))
    return "codec", s, s2, moved, name, vals


@st.composite
def case_can(draw):
    s = draw(CS.can_schema(CS.CanCfg(max_msgs=3)))
    s2, moved = draw(permuted(s))
    return "can", s, s2, moved, None, None


def check_codec(s: M.Schema, s2: M.Schema, name: str, vals: List[Any], known: Any = ()) -> Optional[str]:
    from fcp import serde

    f1, _t1, e1 = frontend.parse_schema(s)
    f2, _t2, e2 = frontend.parse_schema(s2)
    if f1 is None or f2 is None:
        return "__frontend__"
    # (f) the type visitor (used by `fcp describe` and the C++ type mapping) must walk fields by id too
    try:
        from fcp.describe import DescribeVisitor, flatten
        from fcp.specs.type import StructType

        w1 = [flatten(DescribeVisitor(f1).visit(StructType(st_.name))) for st_ in s.structs]
        w2 = [flatten(DescribeVisitor(f2).visit(StructType(st_.name))) for st_ in s.structs]
    except Exception as e:
        return f"(f) type visitor raised {type(e).__name__}: {e}"
    if w1 != w2:
        return f"(f) TypeVisitor/describe order changes with declaration order: {w1} vs {w2}"
    for v in vals:
        ref = refcodec.encode(s, name, v)
        try:
            b1 = bytes(serde.encode(f1, name, v))
            b2 = bytes(serde.encode(f2, name, v))
        except Exception as e:
            return f"(c) encode raised {type(e).__name__}: {e}"
        if b1 != b2:
            return f"(c) Python encoding changes with declaration order: {b1.hex()} vs {b2.hex()} for {v!r}"
        if b2 != ref:
            return f"(c) Python encoding {b2.hex()} != canonical (ascending id) {ref.hex()} for {v!r}"
        try:
            d1 = serde.decode(f1, name, bytearray(ref))
            d2 = serde.decode(f2, name, bytearray(ref))
        except Exception as e:
            return f"(c) decode raised {type(e).__name__}: {e}"
        if not refcodec.same_value(d1, d2):
            return f"(c) Python decoding changes with declaration order: {d1!r} vs {d2!r}"
    return None


def check_can(s: M.Schema, s2: M.Schema) -> Optional[str]:
    from fcp.encoding import PackedEncoderContext, make_encoder

    f1, _t1, e1 = frontend.parse_schema(s)
    f2, _t2, e2 = frontend.parse_schema(s2)
    if f1 is None or f2 is None:
        return "__frontend__"
    for unroll in (True, False):
        for i1, i2 in zip(f1.impls, f2.impls):
            if (i1.name, i1.protocol) != (i2.name, i2.protocol):
                return f"(a) binding lists differ: {i1.name}/{i1.protocol} vs {i2.name}/{i2.protocol}"
            try:
                reflayout.layout(s, i1.type, unroll)
            except reflayout.NotFixedSize:
                continue
            try:
                l1 = c04.describe_values(make_encoder("packed", f1, PackedEncoderContext().with_unroll_arrays(unroll)).generate(i1))
                l2 = c04.describe_values(make_encoder("packed", f2, PackedEncoderContext().with_unroll_arrays(unroll)).generate(i2))
            except Exception as e:
                return f"(a) layout raised {type(e).__name__}: {e}"
            if l1 != l2:
                return f"(a) layout of {i1.name} (unroll={unroll}) changes with declaration order: {l1} vs {l2}"
    d1, err1 = c05.gen_dbc(f1)
    d2, err2 = c05.gen_dbc(f2)
    if (d1 is None) != (d2 is None):
        return f"(b) DBC generation succeeds for one twin only: {err1} / {err2}"
    if d1 is not None:
        m1 = {f["bus"]: str(f["contents"]) for f in d1}
        m2 = {f["bus"]: str(f["contents"]) for f in d2}
        if m1 != m2:
            for b in m1:
                if m1.get(b) != m2.get(b):
                    l1 = [x for x in m1[b].split("\n") if x.strip()]
                    l2 = [x for x in (m2.get(b) or "").split("\n") if x.strip()]
                    diff = [(x, y) for x, y in zip(l1, l2) if x != y][:2]
                    return f"(b) DBC for bus {b} changes with declaration order: {diff}"
            return "(b) DBC bus sets differ between twins"
    return None


def run_shard(ctx: Ctx) -> None:
    rec = ctx.rec

    def body(c: Any) -> None:
        kind, s, s2, moved, name, vals = c
        rec.frontend_attempts += 1
        msg = check_codec(s, s2, name, vals) if kind == "codec" else check_can(s, s2)
        if msg == "__frontend__":
            rec.rejected_by_frontend += 1
            return
        rec.eval()
        rec.cls("python_codec" if kind == "codec" else "layout_dbc")
        t1, t2 = printer.to_text(s), printer.to_text(s2)
        if moved:
            rec.cls("moved_across_different")
            rec.nt([t1, t2])
            rec.sample({"back_ends": kind, "S": t1, "S_permuted": t2})
        if msg:
            raise Violation(msg, {"kind": kind, "S_text": t1, "S2_text": t2, "pickle": pickle_b64((s, s2, name, vals))})

    strat = st.one_of(case_codec(ctx.tier), case_can())
    hyp_run(ctx, strat, body, ctx.n(2400, 40000))
    if ctx.shard < 4:
        try:
            from props import c15_compiled

            c15_compiled.run(ctx)
        except ImportError:
            rec.extra["compiled_twins"] = "engines not built yet"


def replay(c: Dict[str, Any]) -> Optional[str]:
    if c["kind"] in ("codec", "can"):
        s, s2, name, vals = unpickle_b64(c["pickle"])
        msg = check_codec(s, s2, name, vals) if c["kind"] == "codec" else check_can(s, s2)
        if msg == "__frontend__":
            raise HarnessError("front end rejects the replay schema")
        return msg
    from props import c15_compiled

    return c15_compiled.replay(c)
