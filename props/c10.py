"""C10 — code generation is gated by verification: rejected schemas write nothing."""

from __future__ import annotations

import contextlib
import io
import os
from typing import Any, Dict, List, Optional, Tuple

from hypothesis import strategies as st

from props import c09
from vlib import frontend, printer
from vlib import model as M
from vlib import modules as MO
from vlib import specverifier as SV
from vlib.runner import Ctx, HarnessError, Violation, hyp_run, pickle_b64, unpickle_b64

LEVEL = "exploration"
RULE = (
    "Cases = (C09-G2 schema with 0-2 injected rule violations — general or plug-in, any position —, generator in "
    "{dbc, can_c, cpp, nop}, entry point in {GeneratorManager.generate, `fcp generate` CLI via click's CliRunner}, "
    "pre-existing output directory content: random files, files named like would-be outputs (empty, short, or far longer than "
    "the new contents), *.c/*.h, a sub-directory, or the output of a previous generation from a sibling schema whose frame "
    "ids differ in one digit (same file names and sizes, different bytes)). "
    "Oracle: (a) when the reference predicate (or, where it is silent, the library's own verifier run separately) rejects: "
    "the result is Err / the command prints an error without raising, and the directory snapshot (names, bytes) is "
    "unchanged; (b) when it accepts and the plug-in returns: the set of files created or modified == the paths returned by "
    "that invocation's Generator.generate (captured by a recording wrapper) with exactly the returned contents, and nothing "
    "else is created or modified (can_c's documented clearing of stale *.c/*.h is tolerated only on accept). Non-trivial = "
    "reject case whose generator would have written >= 1 file, or accept case with a pre-existing colliding file; distinct "
    "by sha1(schema, generator, entry, pre-existing names)."
)
ASSUMPTIONS = [
    "when all checks pass but the plug-in itself raises, only 'nothing is created or modified' is required",
    "the recording wrapper around <plugin>.Generator.generate is installed from outside (no source hook)",
]
FLOORS = {"regenerated_over_sibling_output": 0.15, "reject": 0.15, "accept": 0.15, "reject_would_write": 0.10, "accept_collision": 0.02, "entry_cli": 0.15,
          "gen_dbc": 0.07, "gen_can_c": 0.07, "gen_cpp": 0.07, "gen_nop": 0.07}

GENERATORS = ["dbc", "can_c", "cpp", "nop"]
PRE_NAMES = ["default.fcp", "fcp.h", "global_can.h", "can_frame.h", "x.c", "old.h", "notes.txt", "sub/keep.txt",
             "buffer.h", "rpc.h", "ecu_can.c", "README"]

_captured: List[Any] = []
_wrapped = False


def install_recorders() -> None:
    global _wrapped
    if _wrapped:
        return
    import importlib

    for g in GENERATORS:
        mod = importlib.import_module("fcp_" + g)
        gen_mod = importlib.import_module(f"fcp_{g}.generator")
        cls = gen_mod.Generator
        orig = cls.generate

        def make(orig: Any) -> Any:
            def generate(self: Any, fcp: Any, ctx: Any) -> Any:
                out = orig(self, fcp, ctx)
                out = list(out)
                _captured.append(out)
                return out

            return generate

        cls.generate = make(orig)
        assert mod.Generator is cls
    _wrapped = True


def snapshot(root: str) -> Dict[str, Optional[bytes]]:
    out: Dict[str, Optional[bytes]] = {}
    for dp, dn, fn in os.walk(root):
        rel = os.path.relpath(dp, root)
        if rel != ".":
            out[rel + "/"] = None
        for f in fn:
            p = os.path.join(dp, f)
            with open(p, "rb") as fh:
                out[os.path.normpath(os.path.join(rel, f))] = fh.read()
    return out


@st.composite
def case(draw):
    s, inj = draw(c09.g2_case())
    if draw(st.integers(0, 5)) == 0:
        # the same module file imported twice (directly, or once more through a second module): every declaration of it
        # is then duplicated, with identical source positions
        shared = M.Schema([M.Struct("SharedQ", [M.Field("q", 0, M.U(8))])])
        s.decls.insert(0, M.Mod(["sharedq"], shared))
        if draw(st.booleans()):
            s.decls.append(M.Mod(["sharedq"], shared))
        else:
            s.decls.append(M.Mod(["viaq"], M.Schema([M.Mod(["sharedq"], shared)])))
        inj = list(inj) + ["module_imported_twice"]
    gen = draw(st.sampled_from(GENERATORS))
    entry = draw(st.sampled_from(["manager", "cli"]))
    pre = draw(st.lists(st.sampled_from(PRE_NAMES), max_size=4, unique=True))
    # stale files may be shorter or much longer than what the generator writes over them
    pre_files = {n: draw(st.sampled_from(["", "old contents\n", "#include <x>\n", "/* stale */\n" * 6000])) for n in pre}
    missing_dir = draw(st.integers(0, 5)) == 0 and not pre_files
    # a history: the directory was first filled by generating from a sibling schema whose ids differ in one digit
    # (stale files of the same names and the same sizes as the fresh ones)
    if not missing_dir and draw(st.integers(0, 2)) == 0:
        pre_files = dict(pre_files)
        # "1": sibling schema; otherwise the SAME schema generated before, its files then re-written in a look-alike
        # form (other line endings, byte-order mark, trailing blanks ...): what an editor, a checkout with autocrlf
        # or a formatter leaves behind.  A regeneration must still end with exactly the returned bytes.
        pre_files["__pregen__"] = draw(st.sampled_from(["1", "1", "same", "crlf", "crlf", "cr", "strip", "bom", "trail", "nul"]))
    if draw(st.integers(0, 3)) == 0:
        pre_files = dict(pre_files)
        pre_files["__other_fs__"] = "1"
    if entry == "manager" and draw(st.integers(0, 3)) == 0:
        # one manager and one parsed schema object, other targets generated first (into other directories)
        pre_files = dict(pre_files)
        pre_files["__mgr_history__"] = ",".join(draw(st.lists(st.sampled_from(GENERATORS), min_size=1, max_size=2)))
    return s, inj, gen, entry, pre_files, missing_dir


def run_case(s: M.Schema, gen: str, entry: str, pre_files: Dict[str, str], missing_dir: bool,
             rec: Any = None) -> Tuple[Optional[str], Dict[str, Any]]:
    from fcp.codegen import GeneratorManager
    from fcp.verifier import make_general_verifier

    install_recorders()
    info: Dict[str, Any] = {}
    text = printer.to_text(s)
    with_mods = frontend.has_modules(s)
    if with_mods:
        with MO.Scratch("verif-c10p-") as sc0:
            fcp, _t, err = frontend.parse_schema_files(s, sc0.dir)
    else:
        fcp, _t, err = frontend.parse_schema(s)
    if fcp is None:
        info["frontend_rejected"] = True
        return None, info
    config = {"dbc": "dbc", "can_c": "can_c", "cpp": "general", "nop": "general"}[gen]
    t = SV.tree_of_model(s)
    want, reasons = SV.verdict(t, config)
    lib_ok, lib_how = c09.real_verdict(fcp, config)
    if want == "free":
        want = "pass" if lib_ok else "fail"
        info["oracle"] = "library verifier (statement silent)"
    else:
        info["oracle"] = "reference predicate"
    info["want"] = want
    other_fs = MO.other_filesystem() if pre_files.get("__other_fs__") else None
    if other_fs:
        info["output_on_other_filesystem"] = True
    with MO.Scratch("verif-c10-") as sc, MO.Scratch("verif-c10o-", other_fs) as sco:
        # the output directory may live on another file system than the temporary directory (a RAM disk, a mount)
        out_dir = sco.path("out") if other_fs else sc.path("out")
        schema_path = sc.path("src/schema.fcp")
        os.makedirs(sc.path("src"))
        if with_mods:
            sc.write({os.path.join("src", k): v for k, v in MO.files_of(s, "schema.fcp").items()})
        else:
            with open(schema_path, "w") as f:
                f.write(text)
        pregen = pre_files.get("__pregen__")
        mgr_history = [g for g in pre_files.get("__mgr_history__", "").split(",") if g]
        pre_files = {k: v for k, v in pre_files.items() if k not in ("__pregen__", "__mgr_history__", "__other_fs__")}
        if not missing_dir:
            os.makedirs(out_dir)
            if pregen:
                import copy

                sib = copy.deepcopy(s)
                for im in sib.impls:
                    nf = []
                    for k, v in im.fields:
                        if k == "id" and isinstance(v, int) and pregen == "1":
                            v = v + 1 if len(str(v + 1)) == len(str(v)) else v - 1
                        nf.append((k, v))
                    im.fields = nf
                if with_mods:
                    fsib, _ts, _es = frontend.parse_schema_files(sib, sc.path("src0"))
                else:
                    fsib, _ts, _es = frontend.parse_schema(sib)
                if fsib is not None:
                    try:
                        with contextlib.redirect_stdout(io.StringIO()):
                            GeneratorManager(make_general_verifier()).generate(gen, None, None, fsib, out_dir)
                    except BaseException:
                        pass
                info["pregenerated"] = pregen
                if pregen != "1":
                    for dp, _dn, fns in os.walk(out_dir):
                        for fn_ in fns:
                            pth = os.path.join(dp, fn_)
                            with open(pth, "rb") as fh:
                                data = fh.read()
                            if pregen == "crlf":
                                data = data.replace(b"\n", b"\r\n")
                            elif pregen == "cr":
                                data = data.replace(b"\n", b"\r")
                            elif pregen == "strip":
                                data = data.rstrip(b"\n")
                            elif pregen == "bom":
                                data = b"\xef\xbb\xbf" + data
                            elif pregen == "trail":
                                data = data.replace(b"\n", b" \n")
                            elif pregen == "nul":
                                data = data + b"\0"
                            with open(pth, "wb") as fh:
                                fh.write(data)
            for n, c in pre_files.items():
                p = os.path.join(out_dir, n)
                os.makedirs(os.path.dirname(p), exist_ok=True)
                with open(p, "w") as f:
                    f.write(c)
        before = snapshot(out_dir) if os.path.isdir(out_dir) else {}
        del _captured[:]
        raised = None
        result_err = None
        printed = ""
        buf = io.StringIO()
        if entry == "manager":
            # a fresh parse so that the gating decision cannot lean on our verifier run above
            if with_mods:
                fcp2, _t2, _e2 = frontend.parse_schema_files(s, sc.path("src2"))
            else:
                fcp2, _t2, _e2 = frontend.parse_schema(s)
            mgr = GeneratorManager(make_general_verifier())
            for n0, g0 in enumerate(mgr_history):
                try:
                    with contextlib.redirect_stdout(io.StringIO()):
                        mgr.generate(g0, None, None, fcp2, sc.path(f"other{n0}"))
                except BaseException:
                    pass
            if mgr_history:
                info["manager_history"] = mgr_history
                del _captured[:]
            try:
                with contextlib.redirect_stdout(buf):
                    r = mgr.generate(gen, None, None, fcp2, out_dir)
                result_err = bool(r.is_err())
            except BaseException as e:  # SystemExit included
                raised = e
            printed = buf.getvalue()
        else:
            from click.testing import CliRunner

            from fcp.__main__ import main as fcp_main

            res = CliRunner().invoke(fcp_main, ["generate", gen, schema_path, out_dir])
            printed = res.output or ""
            if res.exception is not None and not isinstance(res.exception, SystemExit):
                raised = res.exception
            elif isinstance(res.exception, SystemExit) and res.exit_code not in (0, None):
                raised = res.exception
            result_err = "Error:" in printed
        after = snapshot(out_dir) if os.path.isdir(out_dir) else {}
        returned = _captured[-1] if _captured else None
    created = {k for k in after if k not in before}
    modified = {k for k in after if k in before and after[k] != before[k]}
    deleted = {k for k in before if k not in after}
    info.update(created=sorted(created), modified=sorted(modified), deleted=sorted(deleted),
                raised=repr(raised) if raised else None, result_err=result_err)
    if want == "fail":
        if raised is not None:
            return f"rejected schema ({sorted(reasons) or lib_how}): generate raised {type(raised).__name__}: {raised}"[:400], info
        if not result_err:
            return f"rejected schema ({sorted(reasons) or lib_how}): generate did not report an error (output {printed[:120]!r})", info
        if created or modified or deleted:
            return (f"rejected schema ({sorted(reasons) or lib_how}): output directory changed: created={sorted(created)} "
                    f"modified={sorted(modified)} deleted={sorted(deleted)}"), info
        if returned is not None:
            info["note"] = "plug-in generate() ran although verification failed"
            return f"rejected schema ({sorted(reasons) or lib_how}): the plug-in's generate() was invoked", info
        return None, info
    # accept
    if raised is not None or result_err:
        # the plug-in (not the verifier) failed: nothing may be created or modified
        info["plugin_failed"] = True
        bad = created | modified
        if gen != "can_c":
            bad |= deleted
        bad = {b for b in bad if not b.endswith("/")}
        if bad and returned is None:
            return f"accepted schema, plug-in failed ({raised!r}) but files changed: {sorted(bad)}", info
        if returned is not None and any(r.get("type") == "file" for r in returned):
            # every check passed and the plug-in handed over its files: they have to be written
            return (f"accepted schema: the plug-in returned {sum(1 for r in returned if r.get('type') == 'file')} file(s) but "
                    f"generate failed while writing them ({raised!r}, error reported: {result_err})"), info
        return None, info
    if returned is None:
        return "accepted schema: generate reported success but the plug-in's generate() was never invoked", info
    exp: Dict[str, bytes] = {}
    for r in returned:
        if r.get("type") == "file":
            rel = os.path.normpath(os.path.relpath(str(r.get("path")), out_dir))
            exp[rel] = str(r.get("contents")).encode()
    info["returned_files"] = sorted(exp)
    for rel, content in exp.items():
        if rel not in after:
            return f"accepted schema: returned file {rel} was not written", info
        if after[rel] != content:
            return f"accepted schema: {rel} differs from the returned contents", info
    touched = {k for k in (created | modified) if not k.endswith("/")}
    extra = touched - set(exp)
    if extra:
        return f"accepted schema: files {sorted(extra)} were created/modified but not returned by the plug-in", info
    lost = {k for k in deleted if k not in exp}
    if lost and gen != "can_c":
        return f"accepted schema: pre-existing files {sorted(lost)} were deleted", info
    if gen == "can_c" and any(not (k.endswith(".c") or k.endswith(".h")) for k in lost):
        return f"accepted schema: pre-existing non C files {sorted(lost)} were deleted", info
    return None, info


def would_write(gen: str) -> bool:
    return gen != "nop"


def run_shard(ctx: Ctx) -> None:
    rec = ctx.rec

    def body(c: Any) -> None:
        s, inj, gen, entry, pre_files, missing_dir = c
        rec.frontend_attempts += 1
        msg, info = run_case(s, gen, entry, pre_files, missing_dir)
        if info.get("frontend_rejected"):
            rec.rejected_by_frontend += 1
            return
        rec.eval()
        want = info["want"]
        cl = ["reject" if want == "fail" else "accept", "gen_" + gen, "entry_" + entry]
        if want == "fail" and would_write(gen):
            cl.append("reject_would_write")
        if want == "fail" and any(not k.startswith("__") or k == "__pregen__" for k in pre_files):
            cl.append("reject_with_preexisting")
        coll = want == "pass" and set(pre_files) & set(info.get("returned_files", []))
        if coll:
            cl.append("accept_collision")
        if info.get("plugin_failed"):
            cl.append("plugin_failed")
        if missing_dir:
            cl.append("missing_out_dir")
        if info.get("pregenerated"):
            cl.append("regenerated_over_sibling_output")
            if info["pregenerated"] != "1":
                cl.append("regenerated_over_lookalike_of_own_output")
        if info.get("manager_history"):
            cl.append("manager_reused_after_other_targets")
        if info.get("output_on_other_filesystem"):
            cl.append("output_on_other_filesystem")
        rec.cls(*cl)
        text = printer.to_text(s)
        if "reject_would_write" in cl or coll:
            rec.nt([text, gen, entry, sorted(pre_files)])
            rec.sample({"schema": text, "injected": inj, "generator": gen, "entry": entry, "preexisting": sorted(pre_files),
                        "expected": want, "created": info.get("created"), "returned": info.get("returned_files")})
        if msg:
            raise Violation(f"{gen}/{entry}: {msg}", {
                "schema_text": text, "schema_pickle": pickle_b64(s), "gen": gen, "entry": entry,
                "pre_files": pre_files, "missing_dir": missing_dir})

    hyp_run(ctx, case(), body, ctx.n(3000, 25000))


def replay(c: Dict[str, Any]) -> Optional[str]:
    s = unpickle_b64(c["schema_pickle"])
    msg, _ = run_case(s, c["gen"], c["entry"], c["pre_files"], c["missing_dir"])
    return msg
