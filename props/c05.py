"""C05 — generated DBC describes exactly the packed layout of every CAN binding."""

from __future__ import annotations

import math
from typing import Any, Dict, List, Optional, Tuple

from hypothesis import strategies as st

from vlib import canstrat as CS
from vlib import dbcreader, frontend, printer, refcodec, reflayout
from vlib import model as M
from vlib import strategies as S
from vlib.runner import Ctx, HarnessError, Violation, hyp_run, pickle_b64, unpickle_b64

LEVEL = "exploration"
RULE = (
    "Hypothesis-generated CAN schemas, every message <= 64 bits: mixed int widths/signedness, enums, f32 anywhere, f64, "
    "nested structs, arrays, big-endian on byte-aligned 8/16/32/64-bit top-level leaves, multiplexing (mux_signal names an "
    "unsigned field of the same message, mux_count 1..16, also chained: a multiplexed field selecting a third one), 0-3 bus names, devices, units, several bindings per struct; 3 "
    "frames per message packed from boundary/random leaf values with the reference layout. Oracle for every returned "
    "{bus, contents}: (a) an own BO_/SG_/SIG_VALTYPE_/SG_MUL_VAL_ reader and cantools both load it; (b) messages of file "
    "`bus` == CAN bindings whose bus is `bus` ('default' when absent) with the binding's id, name and ceil(bits/8) length; "
    "(c) one signal per reference leaf with equal start (MSB position for big-endian), width, signedness, value type "
    "(integer/float32/float64), byte order, unit and multiplexer role/ids; (d) decoding each packed frame through the DBC "
    "with the own decoder and with cantools (scaling=False) returns the original leaf values. Non-trivial = >= 2 leaves and "
    "one of {signed, float, enum >= 3 bits, nested, array, big-endian, mux, >= 2 buses}; distinct by sha1(schema text)."
)
ASSUMPTIONS = [
    "signal blocks are only placed on top-level scalar fields (blocks on nested/unrolled names are unconstrained, see C04)",
    "field names carry no underscore so that flattened names (a::b -> a_b, x_0) cannot collide",
    "signedness of float signals is not compared (meaningless in DBC)",
]
FLOORS = {"signed": 0.2, "float": 0.1, "enum_ge3": 0.03, "nested": 0.03, "array": 0.05, "big_endian": 0.05, "mux": 0.03,
          "multi_bus": 0.05, "chained_mux": 0.005, "generated": 0.9}


def preflight() -> None:
    """Oracle self-test: the own DBC reader must agree with cantools on the repository's golden DBC files."""
    import glob

    import cantools

    from vlib.runner import REPO

    files = sorted(glob.glob(f"{REPO}/plugins/fcp_dbc/tests/schemas/generator/*.dbc"))
    if not files:
        raise HarnessError("no golden DBC files found for the reader self-test")
    for path in files:
        text = open(path).read()
        own = dbcreader.parse(text)
        ref = cantools.database.load_string(text, "dbc")
        if sorted(m.name for m in own.messages) != sorted(m.name for m in ref.messages):
            raise HarnessError(f"DBC reader self-test: message sets differ on {path}")
        for cm in ref.messages:
            om = own.msg(cm.name)
            if (om.frame_id, om.length) != (cm.frame_id, cm.length):
                raise HarnessError(f"DBC reader self-test: id/length differ for {cm.name} in {path}")
            for cs in cm.signals:
                osg = om.sig(cs.name)
                got = (osg.start, osg.length, osg.little, osg.signed, osg.unit or "", osg.is_multiplexer)
                want = (cs.start, cs.length, cs.byte_order == "little_endian", cs.is_signed, cs.unit or "", cs.is_multiplexer)
                if got != want:
                    raise HarnessError(f"DBC reader self-test: {cm.name}.{cs.name}: {got} != cantools {want} in {path}")
                if (osg.mux_ids or None) != (cs.multiplexer_ids or None) and not cs.is_multiplexer:
                    raise HarnessError(f"DBC reader self-test: mux ids of {cm.name}.{cs.name} differ in {path}")


def gen_dbc(fcp: Any) -> Tuple[Optional[List[Dict[str, Any]]], Optional[str]]:
    import fcp_dbc

    try:
        return fcp_dbc.Generator().generate(fcp, {"output": "out"}), None
    except Exception as e:
        return None, f"{type(e).__name__}: {e}"


def expected_messages(s: M.Schema) -> Dict[str, List[M.Impl]]:
    out: Dict[str, List[M.Impl]] = {}
    for im in s.impls:
        if im.protocol == "can":
            out.setdefault(M.plain_value(im.get("bus", "default")), []).append(im)
    return out


def block_of(im: M.Impl, fname: str) -> Dict[str, Any]:
    for sb in im.signals:
        if sb.name == fname:
            return {k: M.plain_value(v) for k, v in sb.fields}
    return {}


def check_schema(s: M.Schema, fcp: Any, frames: Dict[str, List[Dict[str, Any]]]) -> Optional[str]:
    import cantools

    files, err = gen_dbc(fcp)
    if files is None:
        return None  # "whenever DBC generation succeeds"
    exp = expected_messages(s)
    got_buses = [f["bus"] for f in files]
    if sorted(got_buses) != sorted(exp):
        return f"(b) files for buses {sorted(got_buses)} but bindings use buses {sorted(exp)}"
    for f in files:
        bus, text = f["bus"], str(f["contents"])
        try:
            own = dbcreader.parse(text)
        except Exception as e:
            return f"(a) own reader cannot load the {bus} file: {type(e).__name__}: {e}"
        try:
            cdb = cantools.database.load_string(text, "dbc")
        except Exception as e:
            return f"(a) cantools cannot load the {bus} file: {type(e).__name__}: {str(e)[:200]}"
        want_msgs = exp[bus]
        if sorted(m.name for m in own.messages) != sorted(im.eff_name for im in want_msgs):
            return (f"(b) bus {bus}: messages {sorted(m.name for m in own.messages)} != bindings "
                    f"{sorted(im.eff_name for im in want_msgs)}")
        for im in want_msgs:
            leaves = reflayout.layout(s, im.type, True)
            bits = reflayout.total_bits(leaves)
            m = own.msg(im.eff_name)
            if m.frame_id != M.plain_value(im.get("id")):
                return f"(b) {im.eff_name}: frame id {m.frame_id} != binding id {im.get('id')}"
            if m.length != math.ceil(bits / 8):
                return f"(b) {im.eff_name}: length {m.length} != ceil({bits}/8)"
            names = [lf.name.replace("::", "_") for lf in leaves]
            if sorted(sg.name for sg in m.signals) != sorted(names):
                return f"(c) {im.eff_name}: signals {sorted(sg.name for sg in m.signals)} != leaves {sorted(names)}"
            muxers = {block_of(im, lf.field).get("mux_signal") for lf in leaves if lf.path == (lf.field,)} - {None}
            big: Dict[str, bool] = {}
            for lf in leaves:
                nm = lf.name.replace("::", "_")
                sg = m.sig(nm)
                blk = block_of(im, lf.field) if lf.path == (lf.field,) else {}
                is_big = blk.get("endianess") == "big"
                big[lf.name] = is_big
                want_start = lf.start + 7 if is_big else lf.start
                if (sg.start, sg.length) != (want_start, lf.width):
                    return f"(c) {im.eff_name}.{nm}: position {sg.start}|{sg.length} != layout {want_start}|{lf.width}"
                if sg.little == is_big:
                    return f"(c) {im.eff_name}.{nm}: byte order little={sg.little} but declared big={is_big}"
                want_vt = 1 if isinstance(lf.type, M.F32) else 2 if isinstance(lf.type, M.F64) else 0
                if sg.valtype != want_vt:
                    return f"(c) {im.eff_name}.{nm}: value type {sg.valtype} != {want_vt} (0 int, 1 float32, 2 float64)"
                if want_vt == 0 and sg.signed != isinstance(lf.type, M.I):
                    return f"(c) {im.eff_name}.{nm}: signed={sg.signed} but leaf type is {M.type_text(lf.type)}"
                if sg.unit != (lf.unit or ""):
                    return f"(c) {im.eff_name}.{nm}: unit {sg.unit!r} != {lf.unit!r}"
                if (sg.scale, sg.offset) != (1.0, 0.0):
                    return f"(c) {im.eff_name}.{nm}: scale/offset {sg.scale},{sg.offset} != 1,0"
                want_mux = lf.path == (lf.field,) and lf.field in muxers
                if sg.is_multiplexer != want_mux:
                    return f"(c) {im.eff_name}.{nm}: multiplexer={sg.is_multiplexer}, expected {want_mux}"
                if "mux_signal" in blk:
                    want_ids = list(range(blk["mux_count"]))
                    if sg.mux_ids != want_ids:
                        return f"(c) {im.eff_name}.{nm}: multiplexer ids {sg.mux_ids} != {want_ids}"
                    if sg.mux_signal not in (None, blk["mux_signal"]):
                        return f"(c) {im.eff_name}.{nm}: multiplexed by {sg.mux_signal} != {blk['mux_signal']}"
                elif sg.mux_ids is not None and not sg.is_multiplexer:
                    return f"(c) {im.eff_name}.{nm}: multiplexed ({sg.mux_role}) but no mux declared"
            # (d) frames
            cm = cdb.get_message_by_name(im.eff_name)
            mux_counts: Dict[str, int] = {}
            for lf in leaves:
                blk = block_of(im, lf.field) if lf.path == (lf.field,) else {}
                if "mux_signal" in blk:
                    mf = blk["mux_signal"]
                    mux_counts[mf] = min(mux_counts.get(mf, 1 << 30), blk["mux_count"])
            for v in frames.get(im.type, []):
                if mux_counts:
                    # a frame whose selector addresses no declared variant carries no muxed signal at all
                    # (cantools refuses to decode it): keep the selector inside the declared range
                    v = dict(v)
                    for mf, cnt in mux_counts.items():
                        v[mf] = v[mf] % cnt
                word = reflayout.pack(s, leaves, v, big)
                data = word.to_bytes(m.length, "little")
                want = {lf.name.replace("::", "_"): reflayout.get_path(v, lf.path) for lf in leaves}
                dec = dbcreader.decode(m, data)
                try:
                    cdec = cm.decode(data, decode_choices=False, scaling=False)
                except Exception as e:
                    return f"(d) {im.eff_name}: cantools cannot decode {data.hex()}: {type(e).__name__}: {e}"
                # every non-multiplexed signal and the multiplexer must be present
                for lf in leaves:
                    nm = lf.name.replace("::", "_")
                    blk = block_of(im, lf.field) if lf.path == (lf.field,) else {}
                    if "mux_signal" in blk:
                        mv = reflayout.get_path(v, (blk["mux_signal"],))
                        active = mv < blk["mux_count"]
                    else:
                        active = True
                    readers = [("own decoder", dec), ("cantools", cdec)]
                    if mux_counts and any(len(x.name.replace("::", "_")) > 32 for x in leaves):
                        # cantools does not re-associate a multiplexed signal with a selector whose name had to be
                        # shortened to 32 characters (it loads its own output inconsistently); the file itself is
                        # consistent for the independent reader, which follows the long-symbol attributes
                        readers = readers[:1]
                    for label, d in readers:
                        if active and nm not in d:
                            return f"(d) {im.eff_name}.{nm}: missing from {label} output for frame {data.hex()}"
                        if nm in d:
                            x, w = d[nm], want[nm]
                            if isinstance(w, float):
                                ok = isinstance(x, float) and refcodec.same_value(float(x), w)
                            else:
                                ok = (not isinstance(x, float)) and int(x) == w
                            if not ok:
                                return (f"(d) {im.eff_name}.{nm}: frame {data.hex()} decodes to {x!r} through the DBC "
                                        f"({label}), packed value was {w!r}")
    return None


def classes_of(s: M.Schema) -> List[str]:
    cl = set()
    for im in s.impls:
        if im.protocol != "can":
            continue
        leaves = reflayout.layout(s, im.type, True)
        if len(leaves) >= 2:
            cl.add("ge2_leaves")
        for lf in leaves:
            if isinstance(lf.type, M.I):
                cl.add("signed")
            if isinstance(lf.type, (M.F32, M.F64)):
                cl.add("float")
            if isinstance(lf.type, M.EnumRef) and lf.width >= 3:
                cl.add("enum_ge3")
            if "::" in lf.name:
                cl.add("nested")
            if len(lf.path) > 1 and any(isinstance(p, int) for p in lf.path):
                cl.add("array")
        for sb in im.signals:
            d = dict(sb.fields)
            if d.get("endianess") == "big":
                cl.add("big_endian")
            if "mux_signal" in d:
                cl.add("mux")
                if any(sb2.name == d["mux_signal"] and "mux_signal" in dict(sb2.fields) for sb2 in im.signals):
                    cl.add("chained_mux")
    if len(expected_messages(s)) >= 2:
        cl.add("multi_bus")
    return sorted(cl)


@st.composite
def case(draw):
    s = draw(CS.can_schema(CS.CanCfg()))
    frames: Dict[str, List[Dict[str, Any]]] = {}
    for im in s.impls:
        if im.type not in frames:
            frames[im.type] = draw(st.lists(S.struct_value(s, im.type), min_size=3, max_size=3))
    return s, frames


def run_shard(ctx: Ctx) -> None:
    rec = ctx.rec

    def body(c: Any) -> None:
        s, frames = c
        rec.frontend_attempts += 1
        fcp, text, err = frontend.parse_schema(s)
        if fcp is None:
            rec.rejected_by_frontend += 1
            return
        rec.eval()
        cl = classes_of(s)
        files, gerr = gen_dbc(fcp)
        if files is None:
            rec.cls("generation_failed")
            rec.extra["last_generation_error"] = gerr
        else:
            rec.cls("generated")
        rec.cls(*cl)
        if files is not None and "ge2_leaves" in cl and set(cl) - {"ge2_leaves"}:
            rec.nt(text)
            rec.sample({"schema": text, "classes": cl, "dbc_buses": [f["bus"] for f in files]})
        msg = check_schema(s, fcp, frames)
        if msg:
            raise Violation(msg, {"schema_text": text, "schema_pickle": pickle_b64(s), "frames_pickle": pickle_b64(frames)})

    hyp_run(ctx, case(), body, ctx.n(4800, 60000))


def replay(c: Dict[str, Any]) -> Optional[str]:
    s = unpickle_b64(c["schema_pickle"])
    fcp, text, err = frontend.parse_schema(s)
    if fcp is None:
        raise HarnessError(f"front end rejects the replay schema: {err}")
    return check_schema(s, fcp, unpickle_b64(c["frames_pickle"]))
